#!/usr/bin/env python3
"""Regenerate the seeded-change table of DESIGN.md section 7 from seeded/*/meta.json and seeded/matrix.json
(between the markers <!-- SEEDED-TABLE-BEGIN --> and <!-- SEEDED-TABLE-END -->)."""
import json
import os
import re

VERIF = os.path.dirname(os.path.dirname(os.path.abspath(__file__)))
matrix = json.load(open(os.path.join(VERIF, "seeded", "matrix.json")))
rows = []
caught = total = 0
by_round = {}
for sid in sorted(d for d in os.listdir(os.path.join(VERIF, "seeded")) if os.path.isdir(os.path.join(VERIF, "seeded", d))):
    meta = json.load(open(os.path.join(VERIF, "seeded", sid, "meta.json")))
    by = sorted(p for p, v in matrix.get(sid, {}).items() if isinstance(v, dict) and v.get("exit") == 1)
    summ = re.sub(r"\s+", " ", meta.get("summary", "")).replace("|", "/")
    if len(summ) > 150:
        summ = summ[:150] + "…"
    suffix = sid.split("-")[1]
    rnd = "regression of a fix" if suffix.startswith("r") else {"a": "1", "b": "1", "c": "2", "d": "2", "e": "3", "f": "3", "g": "4", "h": "4", "i": "5", "j": "5", "k": "6", "l": "6", "m": "7"}.get(suffix, "?")
    c = by_round.setdefault(rnd, [0, 0])
    c[1] += 1
    total += 1
    if by:
        caught += 1
        c[0] += 1
    rows.append("| %s | %s | %s |" % (sid, summ, ", ".join(by) if by else "— (not decided)"))
head = ["**%d of %d** confirmed changes are reported by at least one check (%s):" % (
    caught, total, "; ".join("round %s: %d of %d" % (r, c[0], c[1]) if r[0].isdigit() else "%s: %d of %d" % (r, c[0], c[1]) for r, c in sorted(by_round.items()))),
    "", "| id | change (sub-agent's summary) | reported by |", "|---|---|---|"]
text = "\n".join(head + rows) + "\n"
p = os.path.join(VERIF, "DESIGN.md")
s = open(p).read()
b, e = "<!-- SEEDED-TABLE-BEGIN -->\n", "<!-- SEEDED-TABLE-END -->\n"
if b in s and e in s:
    s = s[:s.index(b) + len(b)] + text + s[s.index(e):]
    open(p, "w").write(s)
    print("DESIGN.md table regenerated: %d of %d" % (caught, total))
else:
    print("markers not found; table:\n" + text)

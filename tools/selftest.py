#!/usr/bin/env python3
"""selftest.py [--props C04,C17] [--jobs 8]: run the checks against every confirmed seeded change.

For each /verif/seeded/<id>/patch.diff: copy /repo's working tree to a scratch directory outside /repo and /verif,
apply the patch, run `./check <P> --repo <copy>` for the listed properties (default: the property the seed was written
for, plus those recorded in seeded/matrix.json) with a private cache directory, record exit status and the first
violation line, then remove the copy and its build output.  Writes /verif/seeded/matrix.json."""
import argparse
import concurrent.futures
import json
import os
import shutil
import subprocess
import sys
import tempfile

VERIF = os.path.dirname(os.path.dirname(os.path.abspath(__file__)))
CHECK_ROOT = [VERIF]     # where the checker code is taken from; main() points it at a private snapshot so that editing /verif
                         # while a long self-test runs cannot change (or break) the checker half-way through
ALL = ["C01", "C02", "C03", "C04", "C05", "C06", "C07", "C08", "C09", "C10", "C11", "C12", "C13", "C14", "C15", "C16", "C17", "C18", "C19", "C20"]


def run_seed(sid, props):
    sd = os.path.join(VERIF, "seeded", sid)
    scratch = tempfile.mkdtemp(prefix="verif-selftest-%s-" % sid, dir="/tmp")
    repo = os.path.join(scratch, "repo")
    res = {}
    try:
        subprocess.run(["rsync", "-a", "--exclude", "target", "--exclude", ".git", "/repo/", repo + "/"], check=True)
        r = subprocess.run(["patch", "-p1", "-s", "-i", os.path.join(sd, "patch.diff")], cwd=repo, stdout=subprocess.PIPE, stderr=subprocess.STDOUT, text=True)
        if r.returncode != 0:
            return sid, {"error": "patch does not apply: " + r.stdout[-300:]}
        env = dict(os.environ, VERIF_CACHE_DIR=os.path.join(scratch, "cache"), CARGO_NET_OFFLINE="true")
        for p in props:
            r = subprocess.run([os.path.join(CHECK_ROOT[0], "check"), p, "--repo", repo, "--no-evidence"], cwd=CHECK_ROOT[0], env=env,
                               stdout=subprocess.PIPE, stderr=subprocess.STDOUT, text=True)
            lines = r.stdout.splitlines()
            first = ""
            for i, l in enumerate(lines):
                if l.startswith("VIOLATION"):
                    first = (lines[i + 1].strip() if i + 1 < len(lines) else "")[:400]
                    break
            nviol = sum(1 for l in lines if l.startswith("VIOLATION"))
            rc = r.returncode
            if rc != 0 and nviol == 0:
                rc = "error(%s): %s" % (r.returncode, (lines[-1] if lines else "")[:200])     # a crash is not a report
            res[p] = {"exit": rc, "violations_printed": nviol, "summary": lines[0] if lines else "", "first": first}
    finally:
        shutil.rmtree(scratch, ignore_errors=True)
    return sid, res


def run_benign(name, props):
    """apply a behaviour-preserving refactor to a scratch copy; every listed check must stay silent"""
    bd = os.path.join(VERIF, "selftest", "benign", name)
    scratch = tempfile.mkdtemp(prefix="verif-benign-", dir="/tmp")
    repo = os.path.join(scratch, "repo")
    res = {}
    try:
        subprocess.run(["rsync", "-a", "--exclude", "target", "--exclude", ".git", "/repo/", repo + "/"], check=True)
        plevel = 1 if open(bd).read(200).startswith("diff --git") else 0
        r = subprocess.run("patch -p%d -s < %s" % (plevel, bd), shell=True, cwd=repo, stdout=subprocess.PIPE, stderr=subprocess.STDOUT, text=True)
        if r.returncode != 0:
            return name, {"error": "patch does not apply: " + r.stdout[-300:]}
        env = dict(os.environ, VERIF_CACHE_DIR=os.path.join(scratch, "cache"), CARGO_NET_OFFLINE="true")
        for p in props:
            r = subprocess.run([os.path.join(CHECK_ROOT[0], "check"), p, "--repo", repo, "--no-evidence"], cwd=CHECK_ROOT[0], env=env,
                               stdout=subprocess.PIPE, stderr=subprocess.STDOUT, text=True)
            lines = r.stdout.splitlines()
            first = ""
            for i, l in enumerate(lines):
                if l.startswith("VIOLATION"):
                    first = (lines[i + 1].strip() if i + 1 < len(lines) else "")[:400]
                    break
            rc = r.returncode
            if rc != 0 and not any(l.startswith("VIOLATION") for l in lines):
                rc = "error(%s): %s" % (r.returncode, (lines[-1] if lines else "")[:200])
            res[p] = {"exit": rc, "summary": lines[0] if lines else "", "first": first}
    finally:
        shutil.rmtree(scratch, ignore_errors=True)
    return name, res


def main():
    ap = argparse.ArgumentParser()
    ap.add_argument("--props", default="")
    ap.add_argument("--seeds", default="")
    ap.add_argument("--all-props", action="store_true", help="run every check against every seed")
    ap.add_argument("--jobs", type=int, default=8)
    ap.add_argument("--benign", action="store_true", help="run every check on the behaviour-preserving refactors (must stay silent)")
    a = ap.parse_args()
    snap = tempfile.mkdtemp(prefix="verif-snap-", dir="/tmp")
    for d in ("analysis", "rules", "spec", "driver", "tools"):
        shutil.copytree(os.path.join(VERIF, d), os.path.join(snap, d), ignore=shutil.ignore_patterns("__pycache__", "target"))
    for f in ("check", "known_findings.json"):
        shutil.copy2(os.path.join(VERIF, f), os.path.join(snap, f))
    os.makedirs(os.path.join(snap, ".cache"), exist_ok=True)
    if os.path.isdir(os.path.join(VERIF, ".cache", "driver-target")):
        os.symlink(os.path.join(VERIF, ".cache", "driver-target"), os.path.join(snap, ".cache", "driver-target"))
    CHECK_ROOT[0] = snap
    import atexit
    atexit.register(lambda: shutil.rmtree(snap, ignore_errors=True))
    if a.benign:
        bad = 0
        names = sorted(f for f in os.listdir(os.path.join(VERIF, "selftest", "benign")) if f.endswith(".diff"))
        if a.seeds:
            names = [n for n in names if any(n.startswith(x) for x in a.seeds.split(","))]
        with concurrent.futures.ThreadPoolExecutor(max_workers=a.jobs) as ex:
            results = list(ex.map(lambda n: run_benign(n, a.props.split(",") if a.props else ALL), names))
        for name, res in results:
            for p, v in sorted(res.items()) if isinstance(res, dict) else []:
                if isinstance(v, dict) and v.get("exit") == 1:
                    bad += 1
                    print("FALSE ALARM", name, p, v.get("first"))
                elif isinstance(v, dict) and v.get("exit") != 0:
                    bad += 1
                    print("CHECK ERROR", name, p, v.get("exit"))
            print(name, {p: (v.get("exit") if isinstance(v, dict) else v) for p, v in res.items()})
        sys.exit(1 if bad else 0)
    seeds = sorted(d for d in os.listdir(os.path.join(VERIF, "seeded")) if os.path.isdir(os.path.join(VERIF, "seeded", d)))
    if a.seeds:
        seeds = [s for s in seeds if s in a.seeds.split(",")]
    mpath = os.path.join(VERIF, "seeded", "matrix.json")
    matrix = json.load(open(mpath)) if os.path.exists(mpath) else {}
    jobs = []
    for sid in seeds:
        if a.all_props:
            props = ALL
        elif a.props:
            props = a.props.split(",")
        else:
            props = sorted(set([sid.split("-")[0]] + [p for p, v in matrix.get(sid, {}).items() if isinstance(v, dict) and v.get("exit") == 1]))
        props = [p for p in props if p in ALL]
        jobs.append((sid, props))
    updates = {}
    with concurrent.futures.ThreadPoolExecutor(max_workers=a.jobs) as ex:
        for sid, res in ex.map(lambda j: run_seed(*j), jobs):
            matrix.setdefault(sid, {}).update(res)
            updates.setdefault(sid, {}).update(res)
            caught = [p for p, v in res.items() if isinstance(v, dict) and v.get("exit") == 1]
            print(sid, "caught by", caught or "-", {p: v.get("exit") for p, v in res.items() if isinstance(v, dict)})
            sys.stdout.flush()
    # merge into the file as it is now (another selftest run may have written it meanwhile)
    matrix = json.load(open(mpath)) if os.path.exists(mpath) else {}
    for sid, res in updates.items():
        matrix.setdefault(sid, {}).update(res)
    json.dump(matrix, open(mpath, "w"), indent=1, sort_keys=True)


if __name__ == "__main__":
    main()

#!/usr/bin/env python3
"""verify_seed.py <seed-id> <src-dir>: confirm a seeded breaking change in a scratch worktree of /repo.

Checks: patch applies; demo passes on the pristine tree; demo fails with the patch; the pinned suite
(cargo test --offline --no-fail-fast, lib+doc tests) still passes with the patch.  Writes
/verif/seeded/<seed-id>/{patch.diff,demo.rs,meta.json}; removes the worktree and its build output."""
import json, os, re, shutil, subprocess, sys, time

sid, src = sys.argv[1], sys.argv[2]
meta = json.load(open(os.path.join(src, "meta.json")))
wt = "/tmp/vseed/%s" % sid
out = "/verif/seeded/%s" % sid
env = dict(os.environ, CARGO_NET_OFFLINE="true", CARGO_TARGET_DIR=wt + "-target")
def sh(cmd, cwd=wt, timeout=3000):
    r = subprocess.run(cmd, shell=True, cwd=cwd, env=env, stdout=subprocess.PIPE, stderr=subprocess.STDOUT, text=True, timeout=timeout)
    return r.returncode, r.stdout
subprocess.run("git -C /repo worktree remove --force %s 2>/dev/null; rm -rf %s %s-target; mkdir -p /tmp/vseed; git -C /repo worktree add --detach %s HEAD -q" % (wt, wt, wt, wt), shell=True, check=True)
res = dict(seed=sid, property=meta.get("property"), summary=meta.get("summary"), needs_to_manifest=meta.get("needs_to_manifest"))
try:
    demo_rel = meta["demo_path_in_worktree"]
    demo_cmd = meta["demo_cmd"]
    demo_cmd = re.sub(r"^cd \S+\s*&&\s*", "", demo_cmd)
    demo_cmd = re.split(r"\s{2,}\(|\s+\(also|\s+#", demo_cmd)[0].strip()
    os.makedirs(os.path.join(wt, os.path.dirname(demo_rel)), exist_ok=True)
    shutil.copy(os.path.join(src, "demo.rs"), os.path.join(wt, demo_rel))
    rc0, o0 = sh(demo_cmd)
    res["demo_cmd"] = demo_cmd
    res["demo_pristine_rc"] = rc0
    rc, o = sh("git apply %s" % os.path.join(src, "patch.diff"))
    res["patch_applies"] = rc == 0
    rc1, o1 = sh(demo_cmd)
    res["demo_patched_rc"] = rc1
    res["demo_patched_tail"] = o1[-1500:]
    os.remove(os.path.join(wt, demo_rel))
    rc2, o2 = sh("cargo test --offline --no-fail-fast")
    m = re.findall(r"test result: (\w+)\. (\d+) passed; (\d+) failed", o2)
    res["suite_rc"] = rc2
    res["suite_results"] = m
    rc3, o3 = sh("cargo build --offline --features numtraits,rand")
    res["features_build_rc"] = rc3
    res["confirmed"] = bool(rc0 == 0 and res["patch_applies"] and rc1 != 0 and rc2 == 0 and m and int(m[0][1]) == 1945 and rc3 == 0)
    res["ran"] = ["demo on pristine worktree", "git apply patch.diff", "demo on patched worktree", "cargo test --offline --no-fail-fast (patched)", "cargo build --offline --features numtraits,rand (patched)"]
except Exception as e:
    res["error"] = repr(e)
    res["confirmed"] = False
finally:
    subprocess.run("git -C /repo worktree remove --force %s; rm -rf %s-target" % (wt, wt), shell=True)
if res.get("confirmed"):
    os.makedirs(out, exist_ok=True)
    shutil.copy(os.path.join(src, "patch.diff"), out)
    shutil.copy(os.path.join(src, "demo.rs"), out)
    res["demo_path_in_worktree"] = meta["demo_path_in_worktree"]
    json.dump(res, open(os.path.join(out, "meta.json"), "w"), indent=1)
print(json.dumps({k: res.get(k) for k in ("seed", "confirmed", "demo_pristine_rc", "demo_patched_rc", "suite_results", "features_build_rc", "error")}))

#!/usr/bin/env python3
"""validate_deprows.py [props...]: check the rule-D *specification* (rules/deprows.py) against reference semantics.

Every row of rule D claims that some output leaf of the SPECIFIED function varies with some input leaf.  A claim that is
mathematically false (the row over-claims) passes on today's tree only as long as the analysis over-approximates, and
turns into a false alarm as soon as a rewrite makes the analysis precise.  This tool therefore witnesses every claimed
(output leaf, input leaf) pair on a Python model of the primitive-integer semantics (arbitrary-precision integers, the
Rust reference for casts / shifts / Option results; nothing from bnum): it searches two inputs that differ only in the
input leaf and whose output leaves differ.  A pair without a witness is printed (and the exit status is 1).

It checks the rows, not the code: run it after editing rules/deprows.py."""
import os
import random
import re
import struct
import sys

VERIF = os.path.dirname(os.path.dirname(os.path.abspath(__file__)))
sys.path.insert(0, VERIF)
os.chdir(VERIF)

from analysis import core  # noqa: E402
from analysis.facts import DIGIT, is_signed, SIGNED, UNSIGNED  # noqa: E402
from rules import deprows  # noqa: E402

DB = {"u64": 64, "u32": 32, "u16": 16, "u8": 8}
PB = deprows.PBITS
PANIC = ("panic",)
ADT_RE = r"(BUintD32|BUintD16|BUintD8|BUint|BIntD32|BIntD16|BIntD8|BInt)"


# ------------------------------------------------------------------------------------------------ value encoding
def wrap(v, bits, signed):
    v &= (1 << bits) - 1
    if signed and v >> (bits - 1):
        v -= 1 << bits
    return v


def enc(A, v, n):
    """python int -> the nested structure the paths of deprows address"""
    db = DB[DIGIT[A]]
    u = v & ((1 << (n * db)) - 1)
    digs = [(u >> (db * i)) & ((1 << db) - 1) for i in range(n)]
    return ((digs,),) if is_signed(A) else (digs,)


def rng_of(A, n):
    bits = n * DB[DIGIT[A]]
    return (-(1 << (bits - 1)), (1 << (bits - 1)) - 1) if is_signed(A) else (0, (1 << bits) - 1)


def select(obj, path, db):
    for e in path:
        if obj is PANIC or obj is None:
            return None
        if e == "discr":
            return obj[0] if isinstance(obj, tuple) and obj and isinstance(obj[0], str) else None
        if isinstance(e, tuple) and e[0] == "lane":
            if not isinstance(obj, int):
                return None
            obj = (obj >> (8 * e[1])) & 0xFF
            continue
        if isinstance(e, tuple):
            if isinstance(obj, tuple) and obj and obj[0] == e[0]:
                obj = obj[1]
                continue
            return None
        try:
            obj = obj[e]
        except Exception:
            return None
    return obj


# ------------------------------------------------------------------------------------------------ reference semantics
class Ctx:
    def __init__(self, A, n, m=None, debug=True):
        self.A, self.n, self.m, self.debug = A, n, m, debug
        self.db = DB[DIGIT[A]] if A in DIGIT else None
        self.bits = n * self.db if self.db else None
        self.sg = is_signed(A) if A in DIGIT else None

    def rng(self):
        return rng_of(self.A, self.n)


def forms(kind, exact, c, retA=None, n=None):
    A = retA or c.A
    n = n or c.n
    lo, hi = rng_of(A, n)
    bits = n * DB[DIGIT[A]]
    over = not (lo <= exact <= hi)
    w = enc(A, wrap(exact, bits, is_signed(A)), n)
    if kind == "overflowing":
        return (w, over)
    if kind == "checked":
        return ("none", ()) if over else ("some", (w,))
    if kind == "wrapping":
        return w
    if kind == "saturating":
        return enc(A, min(max(exact, lo), hi), n)
    if kind in ("strict",) or (kind == "plain" and c.debug):
        return PANIC if over else w
    return w


def kind_of(name):
    for k in ("overflowing", "checked", "wrapping", "saturating", "strict", "unbounded"):
        if name.startswith(k + "_"):
            return k, name[len(k) + 1:]
    return "plain", name


def tdiv(a, b):
    q = abs(a) // abs(b)
    return q if (a >= 0) == (b >= 0) else -q


def popcount(x):
    return bin(x).count("1")


def f_bits(v, f):
    try:
        if f == "f64":
            return struct.unpack("<Q", struct.pack("<d", float(v)))[0]
        return struct.unpack("<I", struct.pack("<f", float(v)))[0]
    except OverflowError:
        return -1 if v < 0 else -2


def reference(rec, A, method, trait, args, c):
    """-> nested result, PANIC, or NotImplemented"""
    n, db, bits, sg = c.n, c.db, c.bits, c.sg
    lo, hi = c.rng()
    U = A if not sg else A.replace("BInt", "BUint")
    kind, stem = kind_of(method)
    a = args[0] if args else None
    b = args[1] if len(args) > 1 else None
    pat = (a & ((1 << bits) - 1)) if isinstance(a, int) else None
    if trait and trait.startswith("core::ops::") and method.endswith("_assign"):
        stem = method[:-7]
        kind = "plain"
    if stem in ("add", "sub", "mul") and len(args) >= 2 and not (trait and ("Add<u" in trait or "Sub<u" in trait)):
        if method == "mul_add":
            return NotImplemented
        ex = a + b if stem == "add" else (a - b if stem == "sub" else a * b)
        return forms(kind, ex, c)
    if stem in ("add_signed", "add_unsigned"):
        return forms(kind, a + b, c)
    if stem == "sub_unsigned":
        return forms(kind, a - b, c)
    if method == "mul_add":
        ex = a * b + args[2]
        return forms("plain", ex, c)
    if method == "carrying_add":
        ex = a + b + int(args[2])
        return (enc(A, wrap(ex, bits, sg), n), not (lo <= ex <= hi) if sg else ex > hi)
    if method == "borrowing_sub":
        ex = a - b - int(args[2])
        return (enc(A, wrap(ex, bits, sg), n), not (lo <= ex <= hi))
    if stem == "neg":
        return forms(kind, -a, c)
    if stem == "abs" and sg:
        return forms(kind, abs(a), c)
    if method == "unsigned_abs":
        return enc(U, abs(a), n)
    if method == "abs_diff":
        return enc(U, abs(a - b), n)
    if method == "abs_sub":
        return forms("plain", max(a - b, 0), c)
    if method == "midpoint":
        s_ = a + b
        return enc(A, (s_ // 2) if (not sg or s_ >= 0) else -((-s_) // 2), n)
    if method == "long_mul":
        return (enc(A, wrap(a * b, bits, False), n), a * b > hi)
    if method == "widening_mul":
        p = a * b
        return (enc(A, p & ((1 << bits) - 1), n), enc(A, p >> bits, n))
    if method == "carrying_mul":
        p = a * b + args[2]
        return (enc(A, p & ((1 << bits) - 1), n), enc(A, p >> bits, n))
    if stem in ("div", "div_euclid", "rem", "rem_euclid") and not sg and len(args) == 2 and isinstance(b, int) and not (trait and "<u" in trait):
        if b == 0:
            return ("none", ()) if kind == "checked" else PANIC
        ex = a // b if stem.startswith("div") else a % b
        return forms(kind if kind != "plain" else "wrapping", ex, c)
    if stem in ("shl", "shr") and len(args) == 2:
        s_ = b
        if not (0 <= s_ < bits):
            return NotImplemented
        ex = wrap(a << s_, bits, sg) if stem == "shl" else (a >> s_)
        w = enc(A, ex, n)
        if kind == "checked":
            return ("some", (w,))
        if kind == "overflowing":
            return (w, False)
        return w
    if method in ("signed_shl", "unsigned_shl"):
        return enc(A, wrap(a << b, bits, sg), n)
    if method == "unsigned_shr":
        return enc(A, pat >> b, n)
    if method == "signed_shr":
        return enc(A, wrap(pat, bits, True) >> b, n)
    if method in ("rotate_left", "rotate_right"):
        s_ = b % bits
        if method == "rotate_right":
            s_ = (bits - s_) % bits
        r = ((pat << s_) | (pat >> (bits - s_))) & ((1 << bits) - 1) if s_ else pat
        return enc(A, r, n)
    if method in ("bitand", "bitor", "bitxor") or (trait and method.replace("_assign", "") in ("bitand", "bitor", "bitxor")):
        mm = method.replace("_assign", "")
        pb_ = b & ((1 << bits) - 1)
        return enc(A, pat & pb_ if mm == "bitand" else (pat | pb_ if mm == "bitor" else pat ^ pb_), n)
    if method == "not":
        return enc(A, ~pat, n)
    if method == "count_ones":
        return popcount(pat)
    if method == "count_zeros":
        return bits - popcount(pat)
    if method == "leading_zeros":
        return bits - pat.bit_length()
    if method == "trailing_zeros":
        return bits if pat == 0 else (pat & -pat).bit_length() - 1
    if method == "leading_ones":
        return bits - (pat ^ ((1 << bits) - 1)).bit_length()
    if method == "trailing_ones":
        return bits if pat == (1 << bits) - 1 else ((~pat) & (pat + 1)).bit_length() - 1
    if method == "bits":
        return pat.bit_length()
    if method == "is_zero":
        return a == 0
    if method == "is_one":
        return a == 1
    if method == "is_power_of_two":
        return a > 0 and a & (a - 1) == 0
    if method == "is_even":
        return a % 2 == 0
    if method == "is_odd":
        return a % 2 == 1
    if method in ("swap_bytes", "to_be", "from_be"):
        return enc(A, int.from_bytes(pat.to_bytes(bits // 8, "little"), "big"), n)
    if method in ("to_le", "from_le", "cast_signed", "cast_unsigned", "to_bits", "from_bits", "from_digits"):
        tgt = rec["_out"] or A
        return enc(tgt, a, n)
    if method == "reverse_bits":
        return enc(A, int(bin(pat)[2:].zfill(bits)[::-1], 2), n)
    if method == "bit":
        return bool((pat >> b) & 1)
    if method == "set_bit":
        return enc(A, (pat | (1 << b)) if args[2] else (pat & ~(1 << b)), n)
    if stem == "next_power_of_two" and not sg:
        p = 1 if a <= 1 else 1 << (a - 1).bit_length()
        return forms(kind, p, c)
    if method in ("eq", "ne", "lt", "le", "gt", "ge"):
        return {"eq": a == b, "ne": a != b, "lt": a < b, "le": a <= b, "gt": a > b, "ge": a >= b}[method]
    if method == "cmp":
        return ("lt" if a < b else ("eq" if a == b else "gt"),)
    if method == "partial_cmp":
        return ("some", (("lt" if a < b else ("eq" if a == b else "gt"),),))
    if method in ("max", "min"):
        return enc(A, max(a, b) if method == "max" else min(a, b), n)
    if method == "clamp":
        if b > args[2]:
            return PANIC
        return enc(A, min(max(a, b), args[2]), n)
    if method == "is_negative":
        return a < 0
    if method == "is_positive":
        return a > 0
    if method == "signum":
        return enc(A, (a > 0) - (a < 0), n)
    if stem == "pow":
        if b > 64:
            return NotImplemented
        return forms(kind, a ** b, c)
    return NotImplemented


def parse_fid(fid):
    """-> (A, method, trait text or None, extra)"""
    m = re.match(r"^" + ADT_RE + r"<N>::(\w+)$", fid)
    if m:
        return m.group(1), m.group(2), None
    m = re.match(r"^<&?" + ADT_RE + r"<N> as ([^>]+(?:<.*>)?)>::(\w+)$", fid)
    if m:
        return m.group(1), m.group(3), m.group(2)
    return None, None, None


# ------------------------------------------------------------------------------------------------ special families
def special(rec, fid, args, n, m_):
    """conversions, slices, radix: -> result or NotImplemented"""
    mm = re.match(r"^<" + ADT_RE + r"<N> as cast::CastFrom<" + ADT_RE + r"<M>>>::cast_from$", fid)
    if mm:
        T = mm.group(1)
        return enc(T, args[0], n)
    mm = re.match(r"^<" + ADT_RE + r"<N> as cast::CastFrom<(\w+)>>::cast_from$", fid)
    if mm:
        T, p = mm.group(1), mm.group(2)
        if p in ("f32", "f64"):
            return NotImplemented
        return enc(T, int(args[0]), n)
    mm = re.match(r"^<(\w+) as cast::CastFrom<" + ADT_RE + r"<N>>>::cast_from$", fid)
    if mm:
        p = mm.group(1)
        if p in ("f32", "f64"):
            return f_bits(args[0], p)
        return wrap(args[0], PB[p], p.startswith("i")) & ((1 << PB[p]) - 1)
    mm = re.match(r"^<(\w+) as core::convert::TryFrom<" + ADT_RE + r"<N>>>::try_from$", fid)
    if mm:
        p = mm.group(1)
        lo, hi = (-(1 << (PB[p] - 1)), (1 << (PB[p] - 1)) - 1) if p.startswith("i") else (0, (1 << PB[p]) - 1)
        return ("ok", (args[0] & ((1 << PB[p]) - 1),)) if lo <= args[0] <= hi else ("err", ())
    mm = re.match(r"^<" + ADT_RE + r"<N> as core::convert::TryFrom<(\w+)>>::try_from$", fid)
    if mm:
        T = mm.group(1)
        lo, hi = rng_of(T, n)
        return ("ok", (enc(T, args[0], n),)) if lo <= args[0] <= hi else ("err", ())
    mm = re.match(r"^<" + ADT_RE + r"<N> as core::convert::From<(\w+)>>::from$", fid)
    if mm:
        return enc(mm.group(1), args[0], n)
    mm = re.match(r"^<" + ADT_RE + r"<N> as (?:cast::)?BTryFrom<" + ADT_RE + r"<M>>>::try_from$", fid)
    if mm:
        T = mm.group(1)
        lo, hi = rng_of(T, n)
        return ("ok", (enc(T, args[0], n),)) if lo <= args[0] <= hi else ("err", ())
    mm = re.match(r"^<" + ADT_RE + r"<N> as num_traits::ToPrimitive>::to_(\w+)$", fid)
    if mm:
        p = mm.group(2)
        if p in ("f32", "f64"):
            return ("some", (f_bits(args[0], p),))
        lo, hi = (-(1 << (PB[p] - 1)), (1 << (PB[p] - 1)) - 1) if p.startswith("i") else (0, (1 << PB[p]) - 1)
        return ("some", (args[0] & ((1 << PB[p]) - 1),)) if lo <= args[0] <= hi else ("none", ())
    mm = re.match(r"^<" + ADT_RE + r"<N> as num_traits::FromPrimitive>::from_(\w+)$", fid)
    if mm:
        T, p = mm.group(1), mm.group(2)
        if p in ("f32", "f64"):
            return NotImplemented
        lo, hi = rng_of(T, n)
        return ("some", (enc(T, args[0], n),)) if lo <= args[0] <= hi else ("none", ())
    mm = re.match(r"^" + ADT_RE + r"<N>::from_digit$", fid)
    if mm:
        return enc(mm.group(1), args[0], n)
    mm = re.match(r"^" + ADT_RE + r"<N>::from_(be|le)_slice$", fid)
    if mm:
        T, be = mm.group(1), mm.group(2) == "be"
        bs = bytes(args[0])
        if not bs:
            return ("some", (enc(T, 0, n),))
        v = int.from_bytes(bs, "big" if be else "little", signed=is_signed(T))
        lo, hi = rng_of(T, n)
        return ("some", (enc(T, v, n),)) if lo <= v <= hi else ("none", ())
    mm = re.match(r"^(?:" + ADT_RE + r"<N>::from_str_radix|<" + ADT_RE + r"<N> as core::str::FromStr>::from_str)$", fid)
    if mm:
        T = mm.group(1) or mm.group(2)
        r = args[1] if len(args) > 1 else 10
        txt = bytes(args[0])
        sgT = is_signed(T)
        if not txt:
            return ("err", ())
        body, neg = txt, False
        if txt[:1] == b"+":
            body = txt[1:]
        elif txt[:1] == b"-" and sgT:
            body, neg = txt[1:], True
        if not body:
            return ("err", ())
        v = 0
        for ch in body:
            c_ = chr(ch)
            d = ord(c_) - 48 if "0" <= c_ <= "9" else (ord(c_) - 87 if "a" <= c_ <= "z" else (ord(c_) - 55 if "A" <= c_ <= "Z" else 99))
            if d >= r:
                return ("err", ())
            v = v * r + d
        if neg:
            v = -v
        lo, hi = rng_of(T, n)
        return ("ok", (enc(T, v, n),)) if lo <= v <= hi else ("err", ())
    mm = re.match(r"^" + ADT_RE + r"<N>::from_radix_(be|le)$", fid)
    if mm:
        T, be = mm.group(1), mm.group(2) == "be"
        r = args[1]
        ds = list(args[0]) if be else list(args[0])[::-1]
        if r < 256 and any(d >= r for d in ds):
            return ("none", ())
        v = 0
        for d in ds:
            v = v * r + d
        bits = n * DB[DIGIT[T]]
        if v >= (1 << bits):
            return ("none", ())
        return ("some", (enc(T, wrap(v, bits, is_signed(T)), n),))
    mm = re.match(r"^" + ADT_RE + r"<N>::to_(be|le|ne)_bytes$", fid)
    if mm:
        T = mm.group(1)
        nb = n * DB[DIGIT[T]] // 8
        u = args[0] & ((1 << (8 * nb)) - 1)
        return list(u.to_bytes(nb, "big" if mm.group(2) == "be" else "little"))
    mm = re.match(r"^" + ADT_RE + r"<N>::from_(be|le|ne)_bytes$", fid)
    if mm:
        T = mm.group(1)
        v = int.from_bytes(bytes(args[0]), "big" if mm.group(2) == "be" else "little")
        return enc(T, v, n)
    mm = re.match(r"^<" + ADT_RE + r"<N> as core::ops::(Add|Div|Rem)<(u8|u16|u32|u64)>>::(\w+)$", fid)
    if mm:
        T, op = mm.group(1), mm.group(2)
        a, d = args
        bits = n * DB[DIGIT[T]]
        if op == "Add":
            r = a + d
            return PANIC if r >= (1 << bits) else enc(T, r, n)
        if d == 0:
            return PANIC
        return enc(T, a // d, n) if op == "Div" else a % d
    mm = re.match(r"^<&?" + ADT_RE + r"<N> as core::ops::(Shl|Shr)<(\w+)>>::(\w+)$", fid)
    if mm:
        T = mm.group(1)
        bits = n * DB[DIGIT[T]]
        a, s_ = args
        if not (0 <= s_ < bits):
            return NotImplemented
        return enc(T, wrap(a << s_, bits, is_signed(T)) if mm.group(2) == "Shl" else a >> s_, n)
    return NotImplemented


# ------------------------------------------------------------------------------------------------ driver
def rand_val(A, n, rnd):
    db = DB[DIGIT[A]]
    digs = [rnd.choice([0, (1 << db) - 1, 1, 1 << (db - 1), rnd.getrandbits(db), rnd.getrandbits(db), rnd.getrandbits(db)]) for _ in range(n)]
    u = sum(d << (db * i) for i, d in enumerate(digs))
    return wrap(u, n * db, is_signed(A))


def main():
    tier = "quick"
    if "--thorough" in sys.argv:
        sys.argv.remove("--thorough")
        tier = "thorough"
    props = sys.argv[1:] or ["C01", "C02", "C03", "C05", "C06", "C07", "C08", "C09", "C10", "C13", "C14", "C15", "C17", "C18", "C19"]
    ctx = core.Ctx()
    rnd = random.Random(12345)
    bad = 0
    total_pairs = unval_rows = val_rows = 0
    unval = {}
    for prop in props:
        deprows.RECORD = []
        core_d = core.d_row
        core.d_row = lambda *a, **k: None            # the rows are only recorded here, not analysed
        try:
            deprows.obligations(ctx, prop, tier)
        finally:
            core.d_row = core_d
        recs = [r for r in deprows.RECORD if r["config"] in ("Kd", "Kdn")]
        deprows.RECORD = None
        for rec in recs:
            fid, n = rec["fid"], rec["n"]
            shape = rec["shape"]
            m_ = shape.get("M")
            A, method, trait = parse_fid(fid)
            contents = rec["contents"]
            rec["_out"] = None
            # the type of the result for reinterpreting functions
            if method in ("cast_signed", "cast_unsigned", "to_bits") and A:
                rec["_out"] = A.replace("BUint", "BInt") if A.startswith("BUint") else A.replace("BInt", "BUint")

            def gen():
                vals = []
                for cn in contents:
                    k = cn[0]
                    if k in ("U", "I"):
                        T = None
                        dty = cn[3]
                        nn = cn[2] if cn[2] is not None else n
                        T = {("U", "u64"): "BUint", ("U", "u32"): "BUintD32", ("U", "u16"): "BUintD16", ("U", "u8"): "BUintD8",
                             ("I", "u64"): "BInt", ("I", "u32"): "BIntD32", ("I", "u16"): "BIntD16", ("I", "u8"): "BIntD8"}[(k, dty)]
                        vals.append(["bn", T, nn, rand_val(T, nn, rnd), cn[1]])
                    elif k == "c":
                        vals.append(["c", cn[1]])
                    elif k == "p":
                        ty = cn[2]
                        if ty == "bool":
                            vals.append(["bool", bool(rnd.getrandbits(1)), cn[1]])
                        elif ty in ("f32", "f64"):
                            vals.append(["skip"])
                        elif ty == "char":
                            vals.append(["prim", "u32", rnd.choice([0, 65, 0x10FFFF, rnd.randrange(0, 0xD800)]), cn[1]])
                        else:
                            b = PB[ty]
                            v = rnd.choice([0, 1, (1 << b) - 1, 1 << (b - 1), rnd.getrandbits(b), rnd.getrandbits(b), rnd.getrandbits(rnd.randrange(1, b + 1)),
                                            rnd.getrandbits(rnd.randrange(1, b + 1)), wrap(-rnd.getrandbits(rnd.randrange(1, b)), b, False)])
                            vals.append(["prim", ty, wrap(v, b, ty.startswith("i")), cn[1]])
                    elif k == "bytes":
                        L = cn[2]
                        radix = next((c2[1] for c2 in contents if c2[0] == "c" and c2[2] == "u32"), None) if "radix" in fid else None
                        if radix is not None and radix < 256:
                            bs = [rnd.choice([0, 1, radix - 1, rnd.randrange(radix)]) for _ in range(L)]
                            # mostly short magnitudes, so that the value fits
                            if rnd.random() < 0.7:
                                keep = rnd.randrange(1, 4)
                                bs = ([0] * (L - keep) + bs[:keep]) if "_be" in fid else (bs[:keep] + [0] * (L - keep))
                        else:
                            bs = [rnd.choice([0, 0xFF, 0x80, 0x7F, 1, rnd.getrandbits(8), rnd.getrandbits(8)]) for _ in range(L)]
                            mms = re.match(r"^" + ADT_RE + r"<N>::from_(?:radix_)?(be|le)", fid)
                            if mms:
                                T = mms.group(1)
                                nbts = n * DB[DIGIT[T]] // 8
                                if L > nbts and rnd.random() < 0.85:
                                    # over-long input: make the excess pure padding so that the value is representable
                                    be_ = mms.group(2) == "be"
                                    neg = is_signed(T) and "radix" not in fid and rnd.random() < 0.5
                                    pad = 0xFF if neg else 0
                                    for g in range(nbts, L):
                                        bs[(L - 1 - g) if be_ else g] = pad
                                    if is_signed(T) and "radix" not in fid:
                                        top = (L - nbts) if be_ else nbts - 1
                                        bs[top] = (bs[top] | 0x80) if neg else (bs[top] & 0x7F)
                        vals.append(["bytes", bs, cn[1]])
                    elif k == "text":
                        L = cn[2]
                        radix = next((c2[1] for c2 in contents if c2[0] == "c" and c2[2] == "u32"), 10)
                        digs = "0123456789abcdefghijklmnopqrstuvwxyz"[:radix]
                        mode = rnd.random()
                        if mode < 0.5:
                            rest = [ord("0")] * (L - 1)          # zero padded: the value fits
                            for _ in range(rnd.randrange(0, 3)):
                                rest[rnd.randrange(max(0, L - 4), L - 1) if L > 1 else 0] = ord(rnd.choice(digs)) if L > 1 else 0
                        elif mode < 0.85:
                            rest = [ord(rnd.choice(digs)) for _ in range(L - 1)]
                        else:
                            rest = [rnd.choice([ord("0"), ord("z"), ord(" "), ord(rnd.choice(digs)), 0xFF]) for _ in range(L - 1)]
                        vals.append(["bytes", [cn[3]] + rest, cn[1]])
                    elif k == "digs":
                        T = {"u64": "BUint", "u32": "BUintD32", "u16": "BUintD16", "u8": "BUintD8"}[cn[3] if len(cn) > 3 else DIGIT[A]]
                        vals.append(["bn", T, cn[2], rand_val(T, cn[2], rnd), cn[1]])
                    else:
                        vals.append(["skip"])
                return vals

            def evaluate(vals):
                if any(v[0] == "skip" for v in vals):
                    return NotImplemented
                args = [v[3] if v[0] == "bn" else (v[1] if v[0] in ("c", "bool", "bytes") else v[2]) for v in vals]
                r = special(rec, fid, args, n, m_)
                if r is NotImplemented and A:
                    c = Ctx(A, n, m_, debug=True)
                    # a by-reference assign form returns the new value of `self`
                    r = reference(rec, A, method, trait, args, c)
                return r

            def vary(vals, label):
                """-> list of variants of vals differing only in the input leaf `label`"""
                mm = re.match(r"^(\w+)(?:\[(\d+)\])?(?:#(\d+))?$", label)
                if not mm:
                    return []
                nm, idx, byte = mm.group(1), mm.group(2), mm.group(3)
                outs = []
                for vi, v in enumerate(vals):
                    if v[0] == "bn" and v[4] == nm and idx is not None:
                        T, nn = v[1], v[2]
                        db = DB[DIGIT[T]]
                        u = v[3] & ((1 << (nn * db)) - 1)
                        j = int(idx)
                        old = (u >> (db * j)) & ((1 << db) - 1)
                        if byte is None:
                            cands = [0, (1 << db) - 1, 1, 1 << (db - 1), old ^ 1, rnd.getrandbits(db), rnd.getrandbits(db), 2, 3, 5, 7, 50, 80, 100, 200,
                                     (1 << db) - 2, old ^ (1 << (db - 1))] + [1 << k8 for k8 in range(8, db, 8)]
                            cands += [rnd.getrandbits(rnd.randrange(1, db + 1)) for _ in range(6)]
                            cands += list(range(9, 34, 2)) + [(1 << (db // 2)) - 1, (1 << (db // 2)) + 1, (1 << db) - 1 - (1 << (db // 2)), 0xB5 << max(0, db - 8)]
                            cands = [x & ((1 << db) - 1) for x in cands]
                        else:
                            bb = int(byte)
                            ob = (old >> (8 * bb)) & 0xFF
                            cands = [(old & ~(0xFF << (8 * bb))) | (x << (8 * bb)) for x in (0, 0xFF, 1, 0x80, ob ^ 1, 2, 3, 0x7F, 0xFE, rnd.getrandbits(8))]
                        for cnd in cands:
                            if cnd != old:
                                nu = (u & ~(((1 << db) - 1) << (db * j))) | (cnd << (db * j))
                                nv = list(vals)
                                nv[vi] = ["bn", T, nn, wrap(nu, nn * db, is_signed(T)), nm]
                                outs.append(nv)
                    elif v[0] == "prim" and v[3] == nm and idx is None:
                        b = PB[v[1]]
                        u = v[2] & ((1 << b) - 1)
                        if byte is None:
                            cands = [0, 1, (1 << b) - 1, 1 << (b - 1), u ^ 1, rnd.getrandbits(b)] + [1 << k8 for k8 in range(0, b, 8)] + \
                                    [(1 << k8) - 1 for k8 in range(8, b, 8)] + [wrap(-(1 << k8), b, False) for k8 in range(0, b, 16)]
                        else:
                            bb = int(byte)
                            cands = [(u & ~(0xFF << (8 * bb))) | (x << (8 * bb)) for x in (0, 0xFF, 0x80, 1, ((u >> (8 * bb)) & 0xFF) ^ 1)]
                        for cnd in cands:
                            if cnd != u:
                                nv = list(vals)
                                nv[vi] = ["prim", v[1], wrap(cnd, b, v[1].startswith("i")), nm]
                                outs.append(nv)
                    elif v[0] == "bool" and v[2] == nm:
                        nv = list(vals)
                        nv[vi] = ["bool", not v[1], nm]
                        outs.append(nv)
                    elif v[0] == "bytes" and v[2] == nm and idx is not None:
                        j = int(idx)
                        for x in (0, 0xFF, 0x80, 0x7F, 1, 2, v[1][j] ^ 1, v[1][j] ^ 0x80, rnd.getrandbits(8), 48, 49, 50, 55, 57, 97, 102, 122, 32):
                            if x != v[1][j]:
                                nb_ = list(v[1])
                                nb_[j] = x
                                nv = list(vals)
                                nv[vi] = ["bytes", nb_, nm]
                                outs.append(nv)
                return outs

            if not rec["required"]:
                continue
            probe = evaluate(gen())
            if probe is NotImplemented:
                unval_rows += 1
                key = re.sub(r"D(8|16|32)\b", "", fid)
                unval[key] = unval.get(key, 0) + 1
                continue
            val_rows += 1
            db_out = None
            bases = [gen() for _ in range(24)]
            # structured bases: dependences that only show on sparse values (is_zero, counts, comparisons of equal operands,
            # next_power_of_two, carries that must ripple through all-ones digits)
            tmpl = gen()
            bn_idx = [i for i, v in enumerate(tmpl) if v[0] == "bn"]

            def patterns(T, nn):
                db_ = DB[DIGIT[T]]
                mx = (1 << db_) - 1
                pats = [[0] * nn, [mx] * nn, [1] * nn, [2] + [0] * (nn - 1), [3] * nn, [mx] * (nn - 1) + [0], [mx] * (nn - 1) + [mx >> 1],
                        [mx] * (nn - 1) + [1], [0] * (nn - 1) + [1 << (db_ - 1)]]
                for j in range(nn):
                    for k8 in range(0, db_, 8):
                        z = [0] * nn
                        z[j] = 1 << k8
                        pats.append(z)
                # random low part, zero high part (values whose squares / products still fit)
                for keep in range(1, nn + 1):
                    for _ in range(3):
                        pats.append([rnd.getrandbits(db_) for _ in range(keep)] + [0] * (nn - keep))
                        pats.append([rnd.getrandbits(db_) for _ in range(keep - 1)] + [rnd.getrandbits(max(1, db_ // 2 - 1))] + [0] * (nn - keep))
                for j in range(nn):
                    for dv in (1, mx, 1 << (db_ - 1)):
                        z = [0] * nn
                        z[j] = dv
                        pats.append(z)
                    o = [mx] * nn
                    o[j] = 0
                    pats.append(o)
                    o2 = [mx] * nn
                    o2[j] = mx - 1
                    pats.append(o2)
                return [wrap(sum(d << (db_ * i) for i, d in enumerate(p_)), nn * db_, is_signed(T)) for p_ in pats]
            if bn_idx:
                i0 = bn_idx[0]
                for pv in patterns(tmpl[i0][1], tmpl[i0][2]):
                    for mode in ("same", "zero", "ones", "rand", "one", "three", "onesbuttop", "zero_same", "pow256"):
                        b_ = gen()
                        b_[i0] = ["bn", tmpl[i0][1], tmpl[i0][2], pv, tmpl[i0][4]]
                        for i1 in bn_idx[1:]:
                            T1, n1 = tmpl[i1][1], tmpl[i1][2]
                            if mode == "same" and (T1, n1) == (tmpl[i0][1], tmpl[i0][2]):
                                b_[i1] = ["bn", T1, n1, pv, tmpl[i1][4]]
                            elif mode == "zero":
                                b_[i1] = ["bn", T1, n1, 0, tmpl[i1][4]]
                            elif mode == "ones":
                                b_[i1] = ["bn", T1, n1, wrap(-1, n1 * DB[DIGIT[T1]], is_signed(T1)), tmpl[i1][4]]
                            elif mode == "one":
                                b_[i1] = ["bn", T1, n1, 1, tmpl[i1][4]]
                            elif mode == "three":
                                b_[i1] = ["bn", T1, n1, 3, tmpl[i1][4]]
                            elif mode == "zero_same":
                                # second operand the type's minimum, later ones the pattern itself (clamp(a, MIN, pattern))
                                lo1 = rng_of(T1, n1)[0]
                                b_[i1] = ["bn", T1, n1, lo1 if i1 == bn_idx[1] else (pv if (T1, n1) == (tmpl[i0][1], tmpl[i0][2]) else 0), tmpl[i1][4]]
                            elif mode == "pow256":
                                b_[i1] = ["bn", T1, n1, 1 << (8 * rnd.randrange(0, max(1, n1 * DB[DIGIT[T1]] // 8 - 1))), tmpl[i1][4]]
                            elif mode == "onesbuttop":
                                db1 = DB[DIGIT[T1]]
                                b_[i1] = ["bn", T1, n1, (1 << (n1 * db1 - db1)) - 1, tmpl[i1][4]]
                        if mode == "pow256" and len(bn_idx) >= 2:
                            # every byte position of the second operand
                            T1, n1 = tmpl[bn_idx[1]][1], tmpl[bn_idx[1]][2]
                            for k8 in range(0, n1 * DB[DIGIT[T1]] - 8, 8):
                                b2 = list(b_)
                                b2[bn_idx[1]] = ["bn", T1, n1, 1 << k8, tmpl[bn_idx[1]][4]]
                                bases.append(b2)
                        bases.append(b_)
                        if len(bn_idx) == 1:
                            break
            base_res = [evaluate(b) for b in bases]
            for path, labels, text in rec["required"]:
                for label in sorted(labels):
                    if "#" not in label and any((label + "#") in l2 for l2 in labels):
                        pass
                    total_pairs += 1
                    found = False
                    for bvals, bres in zip(bases, base_res):
                        if bres is PANIC or bres is NotImplemented:
                            continue
                        o0 = select(bres, path, None)
                        if o0 is None and "discr" not in path:
                            # the component does not exist for this input (e.g. None): still a valid base for the decision only
                            pass
                        for nv in vary(bvals, label):
                            r2 = evaluate(nv)
                            if r2 is PANIC or r2 is NotImplemented:
                                continue
                            o1 = select(r2, path, None)
                            if o0 is None or o1 is None:
                                continue
                            if o0 != o1:
                                found = True
                                break
                        if found:
                            break
                    if not found:
                        bad += 1
                        if bad <= 60:
                            print("NO WITNESS %s %s [%s] shape %s: %s <- %s" % (prop, fid, rec["name"], shape, text, label))
        print("%s: rows validated so far %d, without a model %d, pairs %d, unwitnessed %d" % (prop, val_rows, unval_rows, total_pairs, bad))
        sys.stdout.flush()
    if unval:
        print("rows without a reference model (not validated):")
        for k, v in sorted(unval.items(), key=lambda x: -x[1])[:40]:
            print("   %5d  %s" % (v, k))
    print("RESULT: %d required pairs, %d without a witness" % (total_pairs, bad))
    sys.exit(1 if bad else 0)


if __name__ == "__main__":
    main()

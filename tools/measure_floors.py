#!/usr/bin/env python3
"""measure_floors.py [quick|thorough] [props...]: re-measure the obligation counts on the current (pinned) tree and
store them as floors in spec/floors.json.  Run only on a tree where every check is silent."""
import json, os, re, subprocess, sys
VERIF = os.path.dirname(os.path.dirname(os.path.abspath(__file__)))
tier = sys.argv[1] if len(sys.argv) > 1 else "quick"
props = sys.argv[2:] or ["C%02d" % i for i in range(1, 21)]
p = os.path.join(VERIF, "spec", "floors.json")
fl = json.load(open(p))
env = dict(os.environ, VERIF_NO_SELFTEST="1", VERIF_MEASURING_FLOORS="1")     # the old floor must not make the measurement "not clean"
for pr in props:
    r = subprocess.run([os.path.join(VERIF, "check"), pr, "--tier", tier, "--no-evidence"], cwd=VERIF, env=env, stdout=subprocess.PIPE, stderr=subprocess.STDOUT, text=True)
    m = re.search(r"obligations=(\d+) proved=(\d+) violated=(\d+)", r.stdout)
    if r.returncode != 0 or not m or int(m.group(3)) != 0:
        print(pr, "NOT CLEAN", r.stdout[:300])
        continue
    fl.setdefault(pr, {})[tier] = int(m.group(1))
    print(pr, tier, m.group(1))
    json.dump(fl, open(p, "w"), indent=1, sort_keys=True)

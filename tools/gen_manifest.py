#!/usr/bin/env python3
"""Regenerate /verif/MANIFEST.json from the table below (kept next to the rules so that it stays current)."""
import json
import os

VERIF = os.path.dirname(os.path.dirname(os.path.abspath(__file__)))

CLAIMS = {
    "C01": ("G", "guard-tree evaluation on representatives (MIR value numbering + trusted atom table)",
            "4", "every checked/wrapping/saturating/strict/unsuffixed/mixed-sign/carry-in form of add, sub, neg, abs, abs_diff, unsigned_abs, midpoint routes to the outcome the Rust reference prescribes on sign/boundary representatives (digit counts 1, 2 and 3, both build modes), given the contract of the digit-loop terminals; the num-traits entry points (Checked*/Wrapping*/Saturating*/Overflowing* Add/Sub, Saturating, CheckedNeg/WrappingNeg) on a boundary grid",
            "NOT decided: exactness / flag of overflowing_add, overflowing_sub, overflowing_neg themselves (carry chains). Trusted: rustc MIR, driver, atom-meaning table."),
    "C02": ("G", "guard-tree evaluation on representatives",
            "4", "signed multiplication's re-signing / MIN cases / saturation side and all projection forms (incl. the num-traits CheckedMul/WrappingMul/SaturatingMul entry points and one-digit types), given the contract of the schoolbook terminal long_mul",
            "NOT decided: the schoolbook product and its overflow detection (long_mul), widening_mul digits."),
    "C03": ("G+P+F", "guard-tree evaluation on representatives; panic-class reachability; normal-form equality",
            "4", "zero-divisor routing, the MIN/-1 and MIN/1 tables, sign / euclid / floor / ceil / next_multiple_of adjustment logic of every division form on representatives of each sign combination, given the contract of the unsigned quotient-remainder primitive; panic classes reachable from operators; unsigned euclid/floor forms equal the truncating ones",
            "NOT decided: quotient / remainder digits (short division, Knuth D)."),
    "C04": ("F+P+G", "normal-form comparison of the cfg(debug_assertions) switch; call-graph panic-effect analysis (reach sets per build configuration); guard evaluation",
            "4", "every unsuffixed arithmetic method is strict_* under debug assertions and wrapping_* otherwise; strict_* = expect(checked_*) with the right class; shift operators convert the amount with a checked conversion (debug) / `as` (release) for all 12 amount types; required panic classes reachable (sound), forbidden classes unreachable from checked_/wrapping_/overflowing_/saturating_ and release arithmetic (audited may-analysis); ilog guards; panic side of the division family",
            "NOT decided: panic for *exactly* the overflowing inputs (value-level), bounds-check / primitive-overflow Assert terminators. P- is a may-analysis with an audited exception table (spec/panic_audit.json)."),
    "C05": ("G", "guard-tree evaluation on representatives",
            "4", "amount-vs-BITS routing of all shift forms (checked/overflowing/wrapping/strict/unsuffixed/unbounded), sign fill selection, rotation amount reduced modulo BITS at every width (digit count 3 = non-power-of-two widths), rotate_right inverse of rotate_left",
            "NOT decided: bit movement inside the internal shifters / digit rotation (trusted by contract)."),
    "C06": ("G", "guard-tree evaluation on representatives",
            "4", "signed bit operations equal the unsigned operation on the same pattern; next_power_of_two family; bit / set_bit / power_of_two digit addressing (index >> shift, mask) on index representatives around digit boundaries",
            "NOT decided: unsigned counting / reversal loops."),
    "C07": ("G+F+S", "guard-tree evaluation over the three orderings; normal-form equality; derive/repr structure query",
            "4", "lt/le/gt/ge/eq/ne/min/max/clamp are the documented functions of cmp; signum and the Signed trait route on the sign atoms; PartialOrd/Ord forward to the inherent methods and order pairs that differ only above bit 128 / in the top digit correctly (cmp, partial_cmp, max, min); PartialEq/Eq/Hash are derived over the single field of a repr(transparent) struct",
            "NOT decided: that cmp orders by value, digit loops of eq / is_negative."),
    "C08": ("G", "guard-tree evaluation on representatives",
            "4", "signed pow forms re-sign and range-check the unsigned power as documented (a^0 = 1, MIN results, odd/even exponents, saturation side); all projection forms; ilog2 = bits-1; checked_ilog* None exactly on the invalid side; bases whose power lies strictly between 2^(BITS-1) and 2^BITS; exponents up to u32::MAX; ilog / checked_ilog values on (self, base) pairs decided before the iteration",
            "NOT decided: unsigned square-and-multiply loops, the recursive ilog scheme."),
    "C17": ("F+G", "interprocedural value numbering: normal form of each trait method vs the spec term; guard-tree evaluation of shift operators on typed amounts and of Sum/Product through a finite iterator model",
            "4", "every operator / assign / reference form (incl. shifts by 12 primitive and 2 bnum amount types), Sum/Product folds, Default, FromStr, PartialOrd/Ord, Div/Rem<digit> has the same normal form as the inherent method on the same operands, in both build modes; `<<`/`>>` with each of the 11 other primitive amount types shift by exactly the in-range amount (panic on out-of-range amounts with debug assertions); Sum/Product of 0..3 items are the left fold from ZERO/ONE with the operator's own overflow behaviour",
            "NOT decided: Add<digit> carry loop; values of the inherent twins."),
    "C18": ("F+G+P", "normal-form equality of forwarders; guard evaluation of every operator-trait entry point against the primitive semantics, Integer/PrimInt/Signed/lcm/nth_root early exits; audited panic reachability for Roots",
            "4", "num-traits forwarders equal the inherent methods and, evaluated on a boundary grid, produce the primitive-integer outcome (a hand-written impl is still decided); nth_root of degree 0 panics, of degree 1 is the identity (MIN included), even roots of negatives panic; Integer::div_floor/mod_floor/div_rem/is_multiple_of follow the num-integer contract on every sign combination; lcm does not overflow when the lcm fits; Roots cannot raise an arithmetic-overflow panic",
            "NOT decided: gcd loop, Newton iteration values."),
    "C09": ("G+F+P", "guard-tree evaluation; normal-form equality; audited panic reachability",
            "4", "cast_signed/cast_unsigned/to_bits/from_bits reinterpret the pattern; signed primitive<->bnum casts are the unsigned import/export on the same pattern; CastFrom<bool|char>; AsPrimitive == CastFrom; no CastFrom impl can reach an API-contract panic",
            "NOT decided: the digit loops of the unsigned casts (extension, truncation, split/pack across digit sizes); bnum->bnum casts. P- is an audited may-analysis."),
    "C10": ("G+F+P+T", "guard-tree evaluation (incl. all 256 bytes through the byte-to-digit helper); information-flow (taint + control-dependence) analysis of the parser bodies; panic reachability",
            "4", "radix-range guards precede any read; empty input outcomes; from_radix_be/le pair with the matching endianness terminal (never the opposite one); complete byte-to-digit table; FromStr == from_str_radix(.., 10) (also at digit count 1); sign / boundary / invalid-character texts through from_str_radix, parse_bytes, FromStr and num_traits::Num::from_str_radix around the parser core; rule T: no branch of the parsers rejects (overflow kind / None) without depending on the bytes of the input, so zero-padded numerals of any length are not refused by length; only the radix panic is reachable",
            "NOT decided: grammar / value / error kinds inside the loops of from_buf_radix_internal (trusted by contract for radix <= 255). The leading-zero defect the statement mentions was found by rule T and fixed (a116b27)."),
    "C11": ("G+F+P", "guard-tree evaluation; normal-form equality; panic reachability",
            "4", "radix guards of to_radix_be/le, radix-class dispatch (the exact bit slicer is never reached for a radix whose log2 does not divide the digit width), signed == unsigned on the bit pattern, the parse table accepts every digit character the printer emits, only radix panics reachable",
            "NOT decided: the numerals produced by the conversion loops, the zero case (vector results are not modelled)."),
    "C12": ("F+G", "forwarding shape and guard evaluation of the arguments handed to Formatter::pad_integral",
            "4", "THIN CLAIM - only these clauses: Debug == Display; signed Binary/Octal/LowerHex/UpperHex format the two's-complement bit pattern through the unsigned impl of the same trait; signed Display/LowerExp/UpperExp pass (value >= 0, \"\", text of the magnitude via the same trait) to pad_integral; unsigned Display/Octal pass the radix-10/radix-8 numeral and the right prefix",
            "NOT decided: the produced text (per-digit assembly, interior zero padding, exponent form, width/fill/alignment/flag handling) - i.e. almost all of the statement. These clauses are necessary conditions only."),
    "C13": ("F+G+P", "normal-form equality; guard-tree evaluation; audited panic reachability",
            "4", "digit-array accessors are the identity on the representation; from_digit; sign guards of the mixed-sign TryFrom impls around the unsigned conversions; BTryFrom between all eight families at (source, target) digit-count pairs incl. target widths that are not a whole number of source digits: Ok exactly when representable; no conversion impl can reach an API-contract panic",
            "NOT decided: the bnum -> primitive digit-gathering loops and the checks after them."),
    "C14": ("G", "interprocedural guard-tree evaluation with IEEE-754 bit patterns as values",
            "4", "float->integer casts of representative f32/f64 values (NaN, infinities, zeros, |x|<1, fractional, around both bounds, negative) equal Rust's `as`; integer->float casts of representative integers (exact, ties both ways, carry into the exponent, infinity threshold) round to nearest-even",
            "NOT decided: other inputs; primitive digit import/export loops (trusted by contract)."),
    "C15": ("G+F+T", "guard-tree evaluation; normal-form equality (incl. the nightly configuration); information-flow analysis of from_*_slice",
            "4", "from_le/to_le identity and from_be/to_be byte reversal on this little-endian target, signed forms on the pattern; empty slice -> zero; ne == le and signed *_bytes delegate to unsigned (nightly configuration, both tiers); rule T: from_be_slice / from_le_slice never decide None from the slice length alone",
            "NOT decided: from_*_slice decoding loops and their accept/reject conditions; big-endian targets."),
    "C16": ("W+G", "type-level witness crate (rustc const evaluation + trait resolution) and equal-width guard rows",
            "2.6", "BITS/BYTES/MIN/MAX/ZERO/ONE..TEN/NEG_ONE..NEG_TEN for 4 digit types x 10 digit counts x {U,I}, the 14 aliases, the cast and operator impl matrices (2256 obligations decided by rustc, exhaustive on the grid); identical wrapper routing across digit types at 64 and 192 bits",
            "NOT decided: cross-digit agreement of loop terminals; commuting with extension to a wider type; parse/print."),
    "C19": ("F+G+P", "normal-form equality; guard-tree evaluation incl. float values; audited panic reachability",
            "4", "AsPrimitive == As cast; to_f32/to_f64 == Some(nearest float, ties to even) on rounding representatives (a double rounding through f64 is reported); sign guards of signed to_uN and unsigned from_i64/i128; from_f32/from_f64 None/Some routing and truncation on float representatives incl. values whose top bit is the target's top bit; no API-contract panic",
            "NOT decided: unsigned import/export loops, signed to_iN/from_iN loops."),
    "C20": ("G+S", "guard-tree evaluation of the uniform sampler on bounds x RNG-word representatives; structure query on Standard",
            "4", "range / rejection-count construction, in-range-or-reject routing of sample / sample_single(_inclusive) incl. signed ranges spanning zero and wider than half the type, new == new_inclusive(high-1), whole-array fill in Standard",
            "NOT decided: exact preimage counts (unbiasedness), Fill::try_fill byte view."),
}

# rule D (third session): per-property clause decided by the index-sensitive dependence analysis (analysis/deps.py)
D_CLAUSES = {
    "C01": "digit k of every add / sub / neg / abs / abs_diff / midpoint / carrying form can vary with digits j <= k of each operand (and the carry-in), the overflow flag / Some-None decision with every digit (digit counts 1-4)",
    "C02": "digit k of every product form with digits <= k of both operands, the flag with every digit, the high half of widening_mul / carrying_mul with every digit of every operand",
    "C03": "the unsigned quotient digit k with dividend digits >= k and every divisor digit (decided only where the analysis does not give up: short divisors)",
    "C05": "digit k of x << s / x >> s / rotations with the source digits at distance floor(s/w) (and their neighbour when w does not divide s, and the sign digit for arithmetic right shifts), for 7 amounts per width",
    "C06": "bitwise lanes, counts / is_zero / is_power_of_two / bits with every digit, swap_bytes / reverse_bits with the mirrored digit, bit / set_bit with the addressed digit, next_power_of_two with every digit",
    "C07": "eq / ne / lt / le / gt / ge / cmp / partial_cmp / max / min / clamp with every digit of every operand; is_negative with the top digit, is_positive / signum digit 0 with every digit",
    "C08": "digit k of every pow form (exponents 1, 2, 3, 5, 8, 2^31) with base digits <= k, the overflow decision with every digit",
    "C09": "digit k of every bnum->bnum cast (all 64 family pairs at 10 (N, M) pairs) with the source digits whose bits overlap it and with the sign digit beyond the source width; primitive <-> bnum casts with the operand / the low digits",
    "C10": "from_radix_be / from_radix_le: the Some/None decision with every numeral, digit 0 of the value with every numeral whose weight is neither a multiple of 2^w nor beyond the type; radix 256 with every byte beyond the width; from_str_radix / FromStr with the first character fixed (digit, '0', '+', '-'): the Ok/Err decision with every other character, digit 0 with the characters that can reach it",
    "C13": "the Ok/Err decision of TryFrom<bnum> for every primitive and of BTryFrom at (N, M) pairs with exactly the digits that decide representability, the converted value with the overlapping digits",
    "C15": "from_be_slice / from_le_slice at 9 slice lengths per width: digit k with its own bytes (and the most significant byte for signed extension), the Some/None decision with every excess byte (and the retained sign byte); to_be / to_le lanes",
    "C17": "every by-value / by-reference / assign operator form of + - * & | ^ ! and unary -, Add/Div/Rem<digit>, and << >> with the 12 primitive amount types, with the same digits as the inherent operation",
    "C18": "the num-traits Checked*/Wrapping*/Saturating*/Overflowing* and MulAdd entry points, PrimInt counts / swaps / endianness / rotations / shifts / pow, Signed, Zero/One, is_even/is_odd with the digits of the corresponding primitive operation",
    "C19": "the Some/None decision of to_uN / to_iN with the digits that decide representability, the value with the low digits; from_uN / from_iN / from_fN digits with the operand",
    "C20": "every digit of a Standard sample with the RNG output",
}
D_TECH = "; index-sensitive dependence analysis (constant propagation of loop counters at concrete digit counts, per-digit and per-byte may-dependence sets, control dependence through post-dominators)"
D_NOTE = " Rule D decides only WHICH input digits / bytes can reach WHICH output digits / bytes (a necessary condition); the values the loops compute remain undecided."

NOT_APPLICABLE = {}


def main():
    props = [json.loads(l)["id"] for l in open(os.path.join(VERIF, "properties.jsonl"))]
    checks = []
    for p in props:
        if p not in CLAIMS:
            continue
        fam, tech, dref, text, note = CLAIMS[p]
        if p in D_CLAUSES:
            tech += D_TECH
            text += "; D (inside the digit loops, which the other rules do not enter): " + D_CLAUSES[p]
            note += D_NOTE
        level = "proof" if p == "C16" else "other"
        checks.append({
            "property_id": p,
            "quick_cmd": "./check %s --tier quick" % p,
            "thorough_cmd": "./check %s --tier thorough" % p,
            "evidence_file": "/verif/evidence/%s.json" % p,
            "replay_cmd_template": "./check %s --replay {path}" % p,
            "engine": "bnum-static",
            "level_claimed": {"category": level,
                              "text": "Static analysis (no bnum code is executed): decides the named structural clause for every function instance in the type-checked program, per build configuration. Clause: " + text,
                              "design_ref": "DESIGN.md 4/%s" % p},
            "level_note": note,
            "technique": "static analysis: " + tech,
        })
    na = []
    for p in props:
        if p in CLAIMS:
            continue
        na.append({"property_id": p, "reason": NOT_APPLICABLE.get(p, "check not built yet (work in progress); see DESIGN.md 4/%s for the planned clauses" % p)})
    m = {
        "version": 1,
        "setup_cmd": "python3 analysis/build.py Kd Kr Kdn",
        "hooks": {"guard": "none",
                  "enable": "no hooks or instrumentation: every check is static and reads /repo's current working tree through the rustc_private fact driver (cargo +nightly check with RUSTC_WORKSPACE_WRAPPER)",
                  "baseline_off_cmd": "cd /repo && cargo test --workspace --no-fail-fast --offline",
                  "source_commits": [],
                  "add_only": True},
        "engines": [{"name": "bnum-static", "path": "/verif/check",
                     "serves_properties": sorted(CLAIMS),
                     "kind_free_text": "rustc_private MIR fact driver (/verif/driver) + Python rule library (/verif/analysis, /verif/rules): forwarding normal forms (F), guard-tree evaluation on representatives (G), index-sensitive dependence analysis of the digit loops (D), panic-effect reachability (P+/P-, guard sensitive), information flow / control dependence (T), structure queries (S), witness crate (W)"}],
        "checks": checks,
        "notes": "Family: static analysis only. /repo carries five unguarded `fix:` commits (rotate amounts, Integer floor division, nth_root overflow, float casts in (0.5,1), zero-padded numerals in power-of-two radices) recorded in known_findings.json. UNDECIDED obligations never fail a check.",
        "not_applicable": na,
    }
    json.dump(m, open(os.path.join(VERIF, "MANIFEST.json"), "w"), indent=1)
    print("claimed:", len(checks), "not applicable:", len(na))


if __name__ == "__main__":
    main()

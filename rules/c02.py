"""C02 - multiplication.

Decided (G): on sign / boundary representatives every form of multiplication (overflowing, checked, wrapping,
saturating, strict, `mul` in both build modes; widening / carrying for unsigned) routes to the documented
outcome given the contract of the schoolbook terminal (`long_mul`: low half + overflow flag; `widening_mul`).
This covers the signed re-signing logic, the MIN * -1 / x * MIN cases and the saturation side.
Not decided: the schoolbook product and its overflow detection themselves.
"""
from .common import *
from . import arith
from analysis import core

PROP = "C02"
INFO = dict(
    explanation="Clause decided: signed multiplication is built from the magnitude product with the documented re-signing and overflow rules "
                "(including products equal to MIN and MIN * -1); checked/wrapping/saturating/strict/unsuffixed forms are the documented projections.",
    not_decided="the schoolbook product (long_mul), its overflow flag, widening_mul digits",
)


def obligations(ctx, tier):
    out = []
    configs = ["Kd", "Kr"] if tier == "quick" else ["Kd", "Kr", "Kd0", "Kr0"]
    for cfg in configs:
        K = ctx.k(cfg)
        from . import digits
        out += digits.mul_rows(K, PROP)
        for A in ADTS:
            out += arith.mode_rows(K, PROP, A, "mul", "TT", lambda W, a, b: a * b, "overflow(mul)")
            from . import c18
            out += c18.trait_value_rows(K, A, PROP, stems={"mul"})     # num-traits entry points of the same operation
            T = T_(A)
            out += core.g_row(K, PROP, inh(A, "unchecked_mul"), arith.reps(A, "TT", arith.unchecked_expect(A, lambda W, a, b: a * b)))
            out += core.g_row(K, PROP, tr(A, OPS + "Mul", [T], "mul"),
                              arith.reps(A, "TT", arith.form_expect("plain", A, lambda W, a, b: a * b, "overflow(mul)", K.debug)))
            if not is_signed(A):
                def cm(W, env, A=A):
                    a, b, c = env[0].v, env[1].v, env[2].v
                    w = W.bits(A)
                    r = a * b + c
                    return ("val", ("tuple", (W.wrap(A, r), W.wrap(A, r >> w))))
                out += core.g_row(K, PROP, inh(A, "carrying_mul"), arith.reps(A, "TTT", cm)[::7])
    return out

"""C17 - operator traits, assign forms, reference forms, folds agree with the inherent methods.

Rows are written from the std::ops / std::iter trait documentation and the property statement:
`a op b` for every operand form is the inherent const twin on the dereferenced operands in order;
`a op= b` stores `a op b`; shifts by a primitive amount convert the amount to the exponent type with a
checked conversion when debug assertions are on and with `as` otherwise; Sum/Product are left folds from
ZERO/ONE with + and *.
"""
from .common import *

PROP = "C17"

BIN = [("Add", "add"), ("Sub", "sub"), ("Mul", "mul"), ("Div", "div"), ("Rem", "rem"),
       ("BitAnd", "bitand"), ("BitOr", "bitor"), ("BitXor", "bitxor")]
SHIFTS = [("Shl", "shl", "overflow(shl)"), ("Shr", "shr", "overflow(shr)")]


def amount_term(K, R, cls, p=P(1)):
    """the exponent-typed shift amount the contract requires for a primitive amount of type R"""
    if R == "u32":
        return p
    if K.debug and R not in LOSSLESS_TO_U32:
        return expect_ok(call("@<u32 as core::convert::TryFrom<%s>>::try_from" % R, p), cls)
    return cast(p, R, "u32")


def obligations(ctx, tier):
    out = []
    configs = ["Kd", "Kr"] if tier == "quick" else ["Kd", "Kr", "Kd0", "Kr0"]
    for cfg in configs:
        K = ctx.k(cfg)
        for A in ADTS:
            T = T_(A)
            # ---- binary operators: by value, reference forms, assign forms
            for Tr, m in BIN:
                byval = tr(A, OPS + Tr, [T], m)
                out.append(core.f_row(K, PROP, byval, call(inh(A, m), P(0), P(1))))
                for sref, rref in ((True, False), (False, True), (True, True)):
                    fid = tr(A, OPS + Tr, [("&" if rref else "") + T], m, self_ref=sref)
                    out.append(core.f_row(K, PROP, fid, call(byval, P(0), P(1))))
                asg = tr(A, OPS + Tr + "Assign", [T], m + "_assign")
                out.append(core.f_row(K, PROP, asg, store0(call(byval, P(0), P(1)))))
                asg_ref = tr(A, OPS + Tr + "Assign", ["&" + T], m + "_assign")
                out.append(core.f_row(K, PROP, asg_ref, store0(call(byval, P(0), P(1)))))
            # ---- Not / Neg
            out.append(core.f_row(K, PROP, tr(A, OPS + "Not", [], "not"), call(inh(A, "not"), P(0))))
            out.append(core.f_row(K, PROP, tr(A, OPS + "Not", [], "not", self_ref=True), call(inh(A, "not"), P(0))))
            if is_signed(A):
                out.append(core.f_row(K, PROP, tr(A, OPS + "Neg", [], "neg"), call(inh(A, "neg"), P(0))))
                out.append(core.f_row(K, PROP, tr(A, OPS + "Neg", [], "neg", self_ref=True), call(inh(A, "neg"), P(0))))
            # ---- shifts by the twelve primitive amount types
            for Tr, m, cls in SHIFTS:
                for R in PRIM_INTS:
                    byval = tr(A, OPS + Tr, [R], m)
                    out.append(core.f_row(K, PROP, byval, call(inh(A, m), P(0), amount_term(K, R, cls))))
                    if R != "u32":
                        from . import c05
                        out += core.g_row(K, PROP, byval, c05.prim_amount_reps(A, R, m, cls, K.debug))
                    for sref, rref in ((True, False), (False, True), (True, True)):
                        fid = tr(A, OPS + Tr, [("&" if rref else "") + R], m, self_ref=sref)
                        out.append(core.f_row(K, PROP, fid, call(byval, P(0), P(1))))
                    asg = tr(A, OPS + Tr + "Assign", [R], m + "_assign")
                    out.append(core.f_row(K, PROP, asg, store0(call(byval, P(0), P(1)))))
                    asg_ref = tr(A, OPS + Tr + "Assign", ["&" + R], m + "_assign")
                    out.append(core.f_row(K, PROP, asg_ref, store0(call(byval, P(0), P(1)))))
                # bnum-typed amounts (checked conversion in both build modes)
                fam_u = A if not is_signed(A) else TWIN[A]
                fam_i = TWIN[fam_u]
                for R in (fam_u + "<M>", fam_i + "<M>"):
                    byval = tr(A, OPS + Tr, [R], m)
                    conv = "<u32 as core::convert::TryFrom<%s>>::try_from" % R.replace("<M>", "<N>")
                    out.append(core.f_row(K, PROP, byval,
                                          call(inh(A, m), P(0), expect_ok(callg(conv, "::<M>", P(1)), cls))))
                    out += bnum_amount_rows(K, A, byval, R[:-3], m)
                    for sref, rref in ((True, False), (False, True), (True, True)):
                        fid = tr(A, OPS + Tr, [("&" if rref else "") + R], m, self_ref=sref)
                        out.append(core.f_row(K, PROP, fid, call(byval, P(0), P(1))))
                    asg = tr(A, OPS + Tr + "Assign", [R], m + "_assign")
                    out.append(core.f_row(K, PROP, asg, store0(call(byval, P(0), P(1)))))
                    asg_ref = tr(A, OPS + Tr + "Assign", ["&" + R], m + "_assign")
                    out.append(core.f_row(K, PROP, asg_ref, store0(call(byval, P(0), P(1)))))
            # ---- Default / FromStr / comparison traits
            out.append(core.f_row(K, PROP, tr(A, "core::default::Default", [], "default"), const(inh(A, "ZERO"))))
            out.append(core.f_row(K, PROP, tr(A, "core::str::FromStr", [], "from_str"),
                                  call(inh(A, "from_str_radix"), P(0), lit("u32", 10))))
            out.append(core.f_row(K, PROP, tr(A, "core::cmp::PartialOrd", [T], "partial_cmp"),
                                  some(call(inh(A, "cmp"), P(0), P(1)))))
            out.append(core.f_row(K, PROP, tr(A, "core::cmp::Ord", [], "cmp"), call(inh(A, "cmp"), P(0), P(1))))
            out.append(core.f_row(K, PROP, tr(A, "core::cmp::Ord", [], "max"), call(inh(A, "max"), P(0), P(1))))
            out.append(core.f_row(K, PROP, tr(A, "core::cmp::Ord", [], "min"), call(inh(A, "min"), P(0), P(1))))
            out.append(core.f_row(K, PROP, tr(A, "core::cmp::Ord", [], "clamp"), call(inh(A, "clamp"), P(0), P(1), P(2))))
            # ---- digit-operand forms (unsigned only)
            if not is_signed(A):
                D = DIGIT[A]
                out.append(core.f_row(K, PROP, tr(A, OPS + "Div", [D], "div"), field(call(inh(A, "div_rem_digit"), P(0), P(1)), 0)))
                out.append(core.f_row(K, PROP, tr(A, OPS + "Rem", [D], "rem"), field(call(inh(A, "div_rem_digit"), P(0), P(1)), 1)))
                out += digit_operand_rows(K, A, D)
            # ---- Sum / Product
            out += fold_rows(K, A)
            out += fold_value_rows(K, A)
    return out


def fold_rows(K, A):
    """Sum = fold(ZERO, +), Product = fold(ONE, *): the fold call, its identity element and the closure body."""
    from analysis import nf
    F = K.F
    T = T_(A)
    out = []
    for trait, m, ident, optrait, op in (("core::iter::Sum", "sum", "ZERO", "Add", "add"),
                                         ("core::iter::Product", "product", "ONE", "Mul", "mul")):
        for item in (T, "&" + T):
            fid = tr(A, trait, [item], m)
            key = "%s:F:%s:%s" % (PROP, K.config, fid)
            root = F.root_of(fid)
            if root is None:
                out.append(core.missing(PROP, "F", K, fid))
                continue
            loc = F.loc(F.instances[root]["d"])
            tree = K.S.summary(root)
            status, why = core.UNDECIDED, "not a single fold call"
            if tree[0] == "RET" and not tree[2] and tree[1][0] == "C" and "Iterator::fold" in tree[1][1] and len(tree[1][2]) == 3:
                it, init, clos = tree[1][2]
                want = ("AC", inh(A, ident), ("N",))
                if it != ("P", 0):
                    status, why = core.UNDECIDED, "fold does not consume the iterator argument directly"
                elif init != want:
                    if init[0] == "AC":
                        status, why = core.VIOLATED, "fold identity is %s where the contract requires %s" % (nf.show_term(init), nf.show_term(want))
                    else:
                        status, why = core.UNDECIDED, "fold identity is not a named constant"
                elif clos[0] != "CLOS":
                    status, why = core.UNDECIDED, "fold function is not a closure"
                else:
                    cdef = F.lookup(clos[1])
                    # closure instance: reached from root through fnrefs
                    cinst = None
                    for bb, t in F.instances[root]["r"]:
                        if isinstance(t, int) and F.instances[t]["d"] == cdef:
                            cinst = t
                    if cinst is None:
                        status, why = core.UNDECIDED, "closure instance not found"
                    else:
                        # closure params: p0 = env, p1 = acc, p2 = item
                        from analysis import spec as sp
                        status, why = sp.compare(K.code_levels(cinst),
                                                 K.spec_levels(call(tr(A, OPS + optrait, [T], op), P(1), P(2))), K.debug)
                        why = "fold step: " + why
            out.append(core.Ob(key, PROP, "F", K.config, fid, status, why, loc, dict(code_nf=nf.show_tree(tree)[:600])))
    return out


def fold_value_rows(K, A):
    """Sum / Product on finite iterators (empty, one, two, three items): the left fold with the operator's own overflow
    behaviour (panic with debug assertions, wrap without), through a finite iterator model of the std adaptors."""
    from . import arith
    T = T_(A)
    out = []
    d = dict(arith._values(A))
    names = ["1", "2", "5", "MAX"] + (["n1", "MIN", "n2"] if is_signed(A) else ["0"])
    seqs = [()] + [(a,) for a in names] + [(a, b) for a in names for b in names] + [("2", "5", "1"), ("MAX", "1", "1"), ("1", "MAX", "2")] \
        + ([("n1", "n1", "n1"), ("MIN", "n1", "1"), ("MAX", "n1", "2")] if is_signed(A) else [("0", "MAX", "2")])
    for trait, m, ident, cls, fn in (("core::iter::Sum", "sum", 0, "overflow(add)", lambda x, y: x + y),
                                     ("core::iter::Product", "product", 1, "overflow(mul)", lambda x, y: x * y)):
        def exp(W, env, ident=ident, cls=cls, fn=fn):
            lo, hi = arith.rng(W, A)
            acc = ident
            for x in env[0][1]:
                acc = fn(acc, x.v)
                if not (lo <= acc <= hi):
                    if K.debug:
                        return ("panic", cls)
                    acc = W.wrap(A, acc).v
            return ("val", W.wrap(A, acc))
        reps = []
        for sq in seqs:
            reps.append(("it_" + ("_".join(sq) if sq else "empty"),
                         (lambda sq=sq: lambda W: {0: ("iter", tuple(W.wrap(A, d[n](W)) for n in sq))})(), exp))
        for item in (T, "&" + T):
            out += core.g_row(K, PROP, tr(A, trait, [item], m), reps)
    return out


def digit_operand_rows(K, A, D):
    """`x / d` and `x % d` with a digit-typed divisor: value for d != 0, panic for d == 0"""
    from . import arith
    db = {"u8": 8, "u16": 16, "u32": 32, "u64": 64}[D]
    dvals = [0, 1, 2, 3, 4, 7, 1 << (db - 1), (1 << db) - 1, (1 << (db // 2))]
    xs = [(n, f) for n, f in arith._values(A) if n in ("0", "1", "5", "half", "MAXm1", "MAX", "top")]
    out = []
    for Tr, m in (("Div", "div"), ("Rem", "rem")):
        def exp(W, env, m=m):
            x, d = env[0].v, env[1].v
            if d == 0:
                return ("panic", "*")
            return ("val", W.wrap(A, x // d)) if m == "div" else ("val", PI(D, x % d))
        reps = [("%s_%d" % (n, d), (lambda f=f, d=d: lambda W: {0: W.wrap(A, f(W)), 1: PI(D, d)})(), exp) for n, f in xs for d in dvals]
        out += core.g_row(K, PROP, tr(A, OPS + Tr, [D], m), reps)
    return out


def bnum_amount_rows(K, A, fid, R, m):
    """`x << amount` / `x >> amount` with a bnum-typed amount of M digits: amounts in 0..BITS shift exactly (both build
    modes, every amount type that can hold the amount); other amounts are outside the property"""
    from . import arith
    from analysis.guards import BN
    signed_amt = R in SIGNED
    xs = [(n, f) for n, f in arith._values(A) if n in ("1", "5", "MAX", "MIN", "n1", "top")]

    def exp(W, env):
        x, s_ = env[0].v, env[1].v
        w = W.bits(A)
        if s_ < 0 or s_ >= w:
            return ("any",)         # the property fixes bnum-typed amounts below BITS only
        pat = x & ((1 << w) - 1)
        return ("val", W.wrap(A, (pat << s_) if m == "shl" else (x >> s_)))
    reps = []
    for n, f in xs:
        for an, af in (("0", lambda W: 0), ("1", lambda W: 1), ("9", lambda W: 9), ("Bm1", lambda W: W.bits(A) - 1), ("B", lambda W: W.bits(A)),
                       ("63", lambda W: 63), ("100", lambda W: 100), ("n1", lambda W: -1)):
            if an == "n1" and not signed_amt:
                continue

            def env_fn(W, f=f, af=af):
                aw = W.bits(R, W.m)
                lo, hi = (-(1 << (aw - 1)), (1 << (aw - 1)) - 1) if signed_amt else (0, (1 << aw) - 1)
                a_ = min(max(af(W), lo), hi)         # an amount the amount type can hold
                return {0: W.wrap(A, f(W)), 1: W.wrap(R, a_, W.m)}
            reps.append(("%s_by_%s" % (n, an), env_fn, exp))
    old = core.WORLDS_FOR
    # (value digits N, amount digits M); the large N make BITS exceed what a one-digit u8 / i8 amount type can hold
    core.WORLDS_FOR = lambda f: [(1, 1), (2, 1), (3, 1), (3, 2), (2, 3), (4, 1), (16, 1), (32, 1), (40, 1), (40, 2)]
    try:
        return core.g_row(K, PROP, fid, reps)
    finally:
        core.WORLDS_FOR = old

"""C04 - panics exactly where the primitive integers panic, per build mode.

Decided: the cfg(debug_assertions) switch of every unsuffixed arithmetic method in both configurations (F);
strict_x == expect(checked_x) with the message class of the same operation (F); required panic classes are
reachable where the contract puts them (P+, sound) and no overflow class is reachable from the unsuffixed
arithmetic / operators in release, nothing from checked_*, only zero_divisor from wrapping_/overflowing_/
saturating_* (P-, audited may-analysis); ilog base / argument guards (G).
Not decided: that the panic happens for *exactly* the overflowing inputs (a value-level fact about
checked_*), and implicit panics (bounds checks, primitive overflow checks).
"""
import re

from .common import *
from analysis import core, audit

PROP = "C04"
INFO = dict(
    explanation="Clause decided: each unsuffixed arithmetic method is strict_* with debug assertions and wrapping_* without; strict_* = expect(checked_*) "
                "with the right message; required panic classes are call-graph reachable from operators/methods in the stated build modes "
                "and forbidden API-contract classes are unreachable (modulo an audited table); ilog guards route to the documented panics.",
    not_decided="panic happens for exactly the overflowing inputs (checked_* == None <=> overflow); bounds-check / primitive overflow Assert terminators",
    assumptions=["P- rows are a may-analysis: an infeasible path to a forbidden class would be reported; each audited (root, class, site) triple has a stated reason in spec/panic_audit.json"],
)

SWITCH = [("add", 2), ("sub", 2), ("mul", 2), ("shl", 2), ("shr", 2), ("pow", 2)]
STRICT = {"add": "overflow(add)", "sub": "overflow(sub)", "mul": "overflow(mul)", "neg": "overflow(neg)", "shl": "overflow(shl)",
          "shr": "overflow(shr)", "pow": "overflow(pow)"}
OVERFLOW_CLASSES = {"overflow(add)", "overflow(sub)", "overflow(mul)", "overflow(neg)", "overflow(shl)", "overflow(shr)",
                    "overflow(pow)", "overflow(abs)", "overflow(next_power_of_two)", "overflow(next_multiple_of)"}
ALL_CONTRACT = None   # sentinel: every API-contract class is forbidden


def obligations(ctx, tier):
    out = []
    configs = ["Kd", "Kr"] if tier == "quick" else ["Kd", "Kr", "Kd0", "Kr0"]
    aud = audit.default()
    for cfg in configs:
        K = ctx.k(cfg)
        F = K.F
        for A in ADTS:
            T = T_(A)
            sg = is_signed(A)
            # ---- F: the debug-assertions switch
            for m, n in SWITCH:
                args = [P(i) for i in range(n)]
                mode = "strict_" if K.debug else "wrapping_"
                out.append(core.f_row(K, PROP, inh(A, m), call(inh(A, mode + m), *args), tag="switch"))
            if sg:
                out.append(core.f_row(K, PROP, inh(A, "neg"), call(inh(A, ("strict_" if K.debug else "wrapping_") + "neg"), P(0)), tag="switch"))
                out.append(core.f_row(K, PROP, inh(A, "abs"), call(inh(A, ("strict_" if K.debug else "wrapping_") + "abs"), P(0)), tag="switch"))
            else:
                if K.debug:
                    out.append(core.f_row(K, PROP, inh(A, "next_power_of_two"),
                                          expect_some(call(inh(A, "checked_next_power_of_two"), P(0)), "overflow(next_power_of_two)"), tag="switch"))
                else:
                    out.append(core.f_row(K, PROP, inh(A, "next_power_of_two"), call(inh(A, "wrapping_next_power_of_two"), P(0)), tag="switch"))
            # ---- F: strict_x = expect(checked_x, overflow(x))
            for m, cls in STRICT.items():
                if m == "neg" and False:
                    continue
                n = 1 if m == "neg" else 2
                out.append(core.f_row(K, PROP, inh(A, "strict_" + m),
                                      expect_some(call(inh(A, "checked_" + m), *[P(i) for i in range(n)]), cls), tag="strict"))
            if sg:
                out.append(core.f_row(K, PROP, inh(A, "strict_abs"), expect_some(call(inh(A, "checked_abs"), P(0)), "overflow(neg)"), tag="strict"))
                out.append(core.f_row(K, PROP, inh(A, "strict_add_unsigned"), expect_some(call(inh(A, "checked_add_unsigned"), P(0), P(1)), "overflow(add)"), tag="strict"))
                out.append(core.f_row(K, PROP, inh(A, "strict_sub_unsigned"), expect_some(call(inh(A, "checked_sub_unsigned"), P(0), P(1)), "overflow(sub)"), tag="strict"))
            else:
                out.append(core.f_row(K, PROP, inh(A, "strict_add_signed"), expect_some(call(inh(A, "checked_add_signed"), P(0), P(1)), "overflow(add)"), tag="strict"))
            # ---- P+: required classes
            if K.debug:
                req = [("add", "overflow(add)"), ("sub", "overflow(sub)"), ("mul", "overflow(mul)"), ("shl", "overflow(shl)"),
                       ("shr", "overflow(shr)"), ("pow", "overflow(pow)"), ("next_multiple_of", "overflow(add)|overflow(sub)|overflow(next_multiple_of)")]
                if sg:
                    req += [("neg", "overflow(neg)"), ("abs", "overflow(neg)|overflow(abs)")]
                else:
                    req += [("next_power_of_two", "overflow(next_power_of_two)")]
                for m, cls in req:
                    out.append(core.p_plus(K, PROP, inh(A, m), cls))
                for Tr, m, cls in (("Add", "add", "overflow(add)"), ("Sub", "sub", "overflow(sub)"), ("Mul", "mul", "overflow(mul)")):
                    out.append(core.p_plus(K, PROP, tr(A, OPS + Tr, [T], m), cls))
                    out.append(core.p_plus(K, PROP, tr(A, OPS + Tr + "Assign", [T], m + "_assign"), cls))
                if sg:
                    out.append(core.p_plus(K, PROP, tr(A, OPS + "Neg", [], "neg"), "overflow(neg)"))
                for Tr, m, cls in (("Shl", "shl", "overflow(shl)"), ("Shr", "shr", "overflow(shr)")):
                    for R in PRIM_INTS:
                        out.append(core.p_plus(K, PROP, tr(A, OPS + Tr, [R], m), cls))
                        out.append(core.p_plus(K, PROP, tr(A, OPS + Tr + "Assign", [R], m + "_assign"), cls))
            # both modes
            for m in ("div", "rem", "wrapping_div", "wrapping_rem", "overflowing_div", "overflowing_rem", "wrapping_div_euclid",
                      "wrapping_rem_euclid", "overflowing_div_euclid", "overflowing_rem_euclid", "div_euclid", "rem_euclid",
                      "next_multiple_of", "div_floor", "div_ceil"):
                out.append(core.p_plus(K, PROP, inh(A, m), "zero_divisor"))
            if sg:
                out.append(core.p_plus(K, PROP, inh(A, "saturating_div"), "zero_divisor"))
                for m, cls in (("div", "div_overflow"), ("rem", "rem_overflow"), ("div_euclid", "div_overflow"), ("rem_euclid", "rem_overflow")):
                    out.append(core.p_plus(K, PROP, inh(A, m), cls))
            for Tr, m in (("Div", "div"), ("Rem", "rem")):
                out.append(core.p_plus(K, PROP, tr(A, OPS + Tr, [T], m), "zero_divisor"))
                out.append(core.p_plus(K, PROP, tr(A, OPS + Tr + "Assign", [T], m + "_assign"), "zero_divisor"))
                if sg:
                    out.append(core.p_plus(K, PROP, tr(A, OPS + Tr, [T], m), "div_overflow" if m == "div" else "rem_overflow"))
            for m in ("ilog", "ilog2", "ilog10"):
                out.append(core.p_plus(K, PROP, inh(A, m), "log_nonpositive"))
            out.append(core.p_plus(K, PROP, inh(A, "ilog"), "log_base"))
            for m, cls in STRICT.items():
                out.append(core.p_plus(K, PROP, inh(A, "strict_" + m), cls))
            # ---- P-: forbidden classes
            for fid, di in sorted(F.by_fid.items()):
                d = F.defs[di]
                trt = d.get("trait")
                if d.get("self_head") != A or d.get("kind") != "AssocFn" or di not in F.bodies:
                    continue
                # inherent public methods, and the num-traits entry points of the same names
                if trt is None:
                    if not d.get("public"):
                        continue
                elif not trt.startswith("num_traits::"):
                    continue
                name = d["name"]
                mm = re.match(r"(checked|wrapping|overflowing|saturating)_", name)
                if mm:
                    allowed = set() if mm.group(1) == "checked" else {"zero_divisor"}
                    out += core.p_minus(K, PROP, fid, allowed, aud)
            if not K.debug:
                rel = ["add", "sub", "mul", "shl", "shr", "pow"] + (["neg", "abs"] if sg else ["next_power_of_two"])
                for m in rel:
                    out += p_minus_only(K, inh(A, m), OVERFLOW_CLASSES, aud)
                for Tr, m in (("Add", "add"), ("Sub", "sub"), ("Mul", "mul")):
                    out += p_minus_only(K, tr(A, OPS + Tr, [T], m), OVERFLOW_CLASSES, aud)
                    out += p_minus_only(K, tr(A, OPS + Tr + "Assign", [T], m + "_assign"), OVERFLOW_CLASSES, aud)
                if sg:
                    out += p_minus_only(K, tr(A, OPS + "Neg", [], "neg"), OVERFLOW_CLASSES, aud)
                for Tr, m in (("Shl", "shl"), ("Shr", "shr")):
                    for R in PRIM_INTS:
                        out += p_minus_only(K, tr(A, OPS + Tr, [R], m), OVERFLOW_CLASSES, aud)
                        out += p_minus_only(K, tr(A, OPS + Tr + "Assign", [R], m + "_assign"), OVERFLOW_CLASSES, aud)
            # ---- G: ilog guards; panic / no-panic routing of the division family (shared with C03)
            out += ilog_rows(K, A)
            from . import c03, c17
            out += c03.div_rows(K, A, PROP)
            # ---- F: shift operators convert a primitive amount with a checked conversion (debug) / `as` (release)
            for Tr, m, cls in c17.SHIFTS:
                for R in PRIM_INTS:
                    out.append(core.f_row(K, PROP, tr(A, OPS + Tr, [R], m), call(inh(A, m), P(0), c17.amount_term(K, R, cls)), tag="amount"))
    return out


def p_minus_only(K, fid, forbidden, aud):
    """P- where only the listed classes are forbidden"""
    from analysis import panics
    F = K.F
    root = F.root_of(fid)
    if root is None:
        return [core.missing(PROP, "P-", K, fid)]
    rs = K.P.reach_sites(root)
    allowed = {c for (c, _s) in rs if c not in forbidden}
    return core.p_minus(K, PROP, fid, allowed, aud, tag="release-no-overflow")


def ilog_rows(K, A):
    out = []
    sg = is_signed(A)
    bases = [("base0", 0, ("panic", "log_base")), ("base1", 1, ("panic", "log_base")), ("base2", 2, None), ("base10", 10, None)]
    if sg:
        bases.append(("base_neg", -3, ("panic", "log_base")))
    selfs = [("self0", 0, ("panic", "log_nonpositive")), ("self1", 1, None), ("self100", 100, None)]
    if sg:
        selfs.append(("self_neg", -5, ("panic", "log_nonpositive")))
    reps = []
    for bn, b, be in bases:
        for sn, s, se in selfs:
            # the primitive integers check the base first? Either panic satisfies the contract when both are invalid.
            if be and se:
                exp = ("any_of", be, se)
            else:
                exp = be or se or ("not", ("panic", "*"))
            if be is None and se is None:
                exp = ("normal",)
            reps.append(("%s_%s" % (sn, bn), env_of(p0=V(A, s), p1=V(A, b)), expect(exp)))
    out += core.g_row(K, PROP, inh(A, "ilog"), reps)
    for m in ("ilog2", "ilog10"):
        out += core.g_row(K, PROP, inh(A, m),
                          [(sn, env_of(p0=V(A, s)), expect(se or ("normal",))) for sn, s, se in selfs])
    # checked forms: None exactly on the invalid side (value side undecided -> "not none by the guards")
    reps = []
    for bn, b, be in bases:
        for sn, s, se in selfs:
            exp = ("none",) if (be or se) else ("not", ("none",))
            reps.append(("%s_%s" % (sn, bn), env_of(p0=V(A, s), p1=V(A, b)), expect(exp)))
    out += core.g_row(K, PROP, inh(A, "checked_ilog"), reps)
    for m in ("checked_ilog2", "checked_ilog10"):
        out += core.g_row(K, PROP, inh(A, m),
                          [(sn, env_of(p0=V(A, s)), expect(("none",) if se else ("not", ("none",)))) for sn, s, se in selfs])
    return out

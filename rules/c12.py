"""C12 - formatting traits.  A *thin* claim: only the clauses of the statement that are visible in the shape of the code.

Decided: Debug prints what Display prints (forwarding); the signed Binary / Octal / LowerHex / UpperHex impls format
the *two's-complement bit pattern* with the unsigned impl of the same trait; the signed Display / LowerExp / UpperExp
impls hand `Formatter::pad_integral` the flag `value >= 0`, an empty prefix and the text of the *magnitude* produced by
the same formatting trait of the unsigned type; unsigned Display / Octal pass `true`, the prefix ""/"0o" and the
radix-10 / radix-8 numeral.  (Every one of these is a necessary condition of "prints what Rust prints for a primitive
of the same value".)
Not decided: the text itself - per-digit hex / binary assembly with interior zero padding, the exponent form, width /
fill / alignment / flag handling - i.e. almost all of the statement.  The check says so in its evidence.
"""
from .common import *
from . import arith
from analysis import core, guards, nf
from analysis.guards import PI, BN

PROP = "C12"
INFO = dict(
    explanation="Clause decided: Debug == Display; signed radix formats print the bit pattern through the unsigned impl of the same trait; signed decimal / exponent "
                "formats pass (value >= 0, \"\", text of the magnitude) to pad_integral; unsigned Display / Octal pass the radix-10 / radix-8 numeral and the right prefix. "
                "This is a thin structural claim: the produced text is NOT decided.",
    not_decided="the produced text: per-digit assembly, interior zero padding, exponent form, width/fill/alignment/flags",
)
FMT = "core::fmt::"
TRAITS = ["Display", "Debug", "Binary", "Octal", "LowerHex", "UpperHex", "LowerExp", "UpperExp"]
ARGFN = {"Display": "new_display", "LowerExp": "new_lower_exp", "UpperExp": "new_upper_exp"}


def find_calls(t, pred, acc=None):
    acc = [] if acc is None else acc
    if isinstance(t, tuple):
        if t and t[0] == "C" and pred(t[1]):
            acc.append(t)
        for x in t:
            find_calls(x, pred, acc)
    return acc


def trait_of(label):
    for tname in TRAITS:
        if ("core::fmt::%s>::fmt" % tname) in label:
            return tname
    return None


def obligations(ctx, tier):
    out = []
    configs = ["Kd", "Kr"] if tier == "quick" else ["Kd", "Kr", "Kd0", "Kr0"]
    for cfg in configs:
        K = ctx.k(cfg)
        F = K.F
        S = core._sg(K)
        guards._DESCEND = (S, F)
        for A in ADTS:
            sg = is_signed(A)
            U = A if not sg else TWIN[A]
            # ---- Debug forwards to Display
            out.append(forward_row(K, S, A, "Debug", "Display", None))
            if sg:
                for tname in ("Binary", "Octal", "LowerHex", "UpperHex"):
                    out.append(forward_row(K, S, A, tname, tname, U))
                for tname in ("Display", "LowerExp", "UpperExp"):
                    out += signed_pad_rows(K, S, A, tname)
            else:
                out.append(unsigned_pad_row(K, S, A, "Display", "", 10))
                out.append(unsigned_pad_row(K, S, A, "Octal", "0o", 8))
    return out


def forward_row(K, S, A, tname, want_trait, U):
    F = K.F
    fid = tr(A, FMT + tname, [], "fmt")
    key = "%s:F:%s:%s" % (PROP, K.config, fid)
    root = F.root_of(fid)
    if root is None:
        return core.missing(PROP, "F", K, fid)
    loc = F.loc(F.instances[root]["d"])
    tree = S.summary(root)
    if tree[0] != "RET" or tree[1][0] != "C":
        return core.Ob(key, PROP, "F", K.config, fid, core.UNDECIDED, "not a single forwarding call", loc)
    call = tree[1]
    got = trait_of(call[1])
    if got is None and U is not None and "pad_integral" in call[1]:
        # the unsigned impl was inlined: pad_integral(f, true, prefix, to_str_radix(bits, radix))
        conv = find_calls(call, lambda l: l.endswith("::to_str_radix"))
        if len(conv) == 1 and len(conv[0][2]) == 2:
            if conv[0][2][0] == ("F", ("P", 0), "bits"):
                return core.Ob(key, PROP, "F", K.config, fid, core.PROVED, "formats the bit pattern (self.bits) with the (inlined) unsigned %s impl" % tname, loc)
            if find_calls(conv[0][2][0], lambda l: "unsigned_abs" in l or l.endswith("::abs")):
                return core.Ob(key, PROP, "F", K.config, fid, core.VIOLATED,
                               "formats the magnitude where the contract requires the two's-complement bit pattern", loc)
    if got is None:
        return core.Ob(key, PROP, "F", K.config, fid, core.UNDECIDED, "forwards to `%s`, not a formatting trait method" % call[1][:80], loc)
    if got != want_trait:
        return core.Ob(key, PROP, "F", K.config, fid, core.VIOLATED,
                       "different operation: %s forwards to the %s impl where the contract requires %s" % (tname, got, want_trait), loc)
    if U is not None:
        arg = call[2][0] if call[2] else None
        if arg == ("F", ("P", 0), "bits"):
            return core.Ob(key, PROP, "F", K.config, fid, core.PROVED, "formats the bit pattern (self.bits) with the unsigned %s impl" % tname, loc)
        if arg is not None and find_calls(arg, lambda l: "unsigned_abs" in l or l.endswith("::abs")):
            return core.Ob(key, PROP, "F", K.config, fid, core.VIOLATED,
                           "formats the magnitude (%s) where the contract requires the two's-complement bit pattern" % nf.show_term(arg)[:80], loc)
        return core.Ob(key, PROP, "F", K.config, fid, core.UNDECIDED, "argument is %s" % nf.show_term(arg)[:80], loc)
    return core.Ob(key, PROP, "F", K.config, fid, core.PROVED, "forwards to the %s impl on the same value" % want_trait, loc)


def signed_pad_rows(K, S, A, tname):
    """walk the signed impl on sign representatives; at the leaf inspect the pad_integral call"""
    F = K.F
    fid = tr(A, FMT + tname, [], "fmt")
    root = F.root_of(fid)
    if root is None:
        return [core.missing(PROP, "G", K, fid)]
    loc = F.loc(F.instances[root]["d"])
    tree = S.summary(root)
    out = []
    U = TWIN[A]
    dbits = {"u8": 8, "u16": 16, "u32": 32, "u64": 64}[DIGIT[A]]
    for name, vf in (("negative", lambda W: -7), ("zero", lambda W: 0), ("positive", lambda W: 9), ("min", lambda W: arith.rng(W, A)[0]),
                     ("max", lambda W: arith.rng(W, A)[1]), ("neg_one", lambda W: -1),
                     ("digit_top", lambda W: min(1 << (dbits - 1), arith.rng(W, A)[1])), ("digit_max", lambda W: min((1 << dbits) - 1, arith.rng(W, A)[1])),
                     ("neg_digit_top", lambda W: max(-(1 << (dbits - 1)) - 1, arith.rng(W, A)[0])),
                     # machine-word boundaries (a "fits in a primitive" shortcut must hold the same value)
                     ("b63", lambda W: min(1 << 63, arith.rng(W, A)[1])), ("b64m1", lambda W: min((1 << 64) - 1, arith.rng(W, A)[1])),
                     ("b127", lambda W: min(1 << 127, arith.rng(W, A)[1])), ("b128m1", lambda W: min((1 << 128) - 1, arith.rng(W, A)[1])),
                     ("nb63m1", lambda W: max(-(1 << 63) - 1, arith.rng(W, A)[0])), ("nb127m1", lambda W: max(-(1 << 127) - 1, arith.rng(W, A)[0]))):
        key = "%s:G:%s:%s:%s" % (PROP, K.config, fid, name)
        status, detail = core.PROVED, ""
        for n in core.WORLDS:
            W = guards.World(n)
            v = vf(W)
            env = {0: W.wrap(A, v), 1: guards.OPAQUE}
            leaf, opq, path = guards.walk(tree, env, W)
            if opq is not None or leaf[0] != "RET":
                status, detail = core.UNDECIDED, "walk stopped before the formatter call"
                break
            pads = find_calls(leaf[1], lambda l: "pad_integral" in l)
            if not pads:
                # forwarding to a primitive integer's implementation of the same trait: right exactly when the primitive
                # holds the same numeric value
                import re as _re
                prim = [c for c in find_calls(leaf[1], lambda l: _re.match(r"^<(u8|u16|u32|u64|u128|usize|i8|i16|i32|i64|i128|isize) as core::fmt::%s>::fmt$" % tname, l) is not None)]
                if len(prim) == 1 and leaf[1] == prim[0] and len(prim[0][2]) == 2:
                    try:
                        pv = guards.ev(prim[0][2][0], env, W)
                    except guards.PanicReached:
                        pv = guards.OPAQUE
                    if isinstance(pv, PI) and tname in ("Display", "Debug", "LowerExp", "UpperExp"):
                        if pv.v != v:
                            status, detail = core.VIOLATED, "value %d is formatted through the primitive value %r" % (v, pv)
                            break
                        detail = "forwards to the primitive formatter on the same value %r" % (pv,)
                        continue
            if len(pads) != 1 or len(pads[0][2]) != 4:
                status, detail = core.UNDECIDED, "no single pad_integral call on this path"
                break
            _f, flag, prefix, text = pads[0][2]
            fv = guards.ev(flag, env, W)
            if isinstance(fv, bool) and fv != (v >= 0):
                status, detail = core.VIOLATED, "value %d: pad_integral receives is_nonnegative = %s" % (v, fv)
                break
            if prefix[0] == "S" and prefix[1] != "":
                status, detail = core.VIOLATED, "value %d: pad_integral receives the prefix %r where decimal output has none" % (v, prefix[1])
                break
            args = find_calls(text, lambda l: "core::fmt::rt::Argument" in l and "::new_" in l)
            if len(args) != 1 or not isinstance(fv, bool) or prefix[0] != "S":
                status, detail = core.UNDECIDED, "formatter arguments have an unknown shape"
                break
            fn = args[0][1]
            wanted = ARGFN[tname]
            if ("::" + wanted + "::") not in fn and not fn.endswith("::" + wanted):
                others = [o for o in ("new_display", "new_lower_exp", "new_upper_exp", "new_lower_hex", "new_upper_hex", "new_binary", "new_octal", "new_debug")
                          if ("::" + o) in fn]
                if others and others[0] != wanted and not (wanted == "new_display" and others[0] == "new_debug"):
                    # decisive only when the operand of that formatting call is the magnitude itself (a helper may well use
                    # `{}` on a mantissa or digit string while assembling the right text)
                    try:
                        opnd = guards.ev(args[0][2][0], env, W) if args[0][2] else guards.OPAQUE
                    except guards.PanicReached:
                        opnd = guards.OPAQUE
                    if isinstance(opnd, BN) and opnd.v == abs(v):
                        status, detail = core.VIOLATED, "value %d: the magnitude is formatted with %s where %s requires %s" % (v, others[0], tname, wanted)
                        break
                status, detail = core.UNDECIDED, "formatting function %s" % fn[:80]
                break
            mag = guards.ev(args[0][2][0], env, W)
            if isinstance(mag, BN):
                if mag.v != abs(v):
                    status, detail = core.VIOLATED, "value %d: the text is produced from %r where the contract requires the magnitude %d" % (v, mag, abs(v))
                    break
            else:
                status, detail = core.UNDECIDED, "formatted operand not evaluable"
                break
            detail = "pad_integral(f, %s, \"\", {%s} of %r)" % (fv, wanted, mag)
        out.append(core.Ob(key, PROP, "G", K.config, fid, status, detail, loc, dict(representative=name)))
    return out


def unsigned_pad_row(K, S, A, tname, prefix_want, radix_want):
    F = K.F
    fid = tr(A, FMT + tname, [], "fmt")
    key = "%s:F:%s:%s:pad" % (PROP, K.config, fid)
    root = F.root_of(fid)
    if root is None:
        return core.missing(PROP, "F", K, fid)
    loc = F.loc(F.instances[root]["d"])
    tree = S.summary(root)
    if tree[0] != "RET":
        return core.Ob(key, PROP, "F", K.config, fid, core.UNDECIDED, "not straight-line", loc)
    pads = find_calls(tree[1], lambda l: "pad_integral" in l)
    if len(pads) != 1 or len(pads[0][2]) != 4:
        return core.Ob(key, PROP, "F", K.config, fid, core.UNDECIDED, "no single pad_integral call", loc)
    _f, flag, prefix, text = pads[0][2]
    conv = find_calls(text, lambda l: l.endswith("::to_str_radix"))
    if flag == ("K", "bool", 0):
        return core.Ob(key, PROP, "F", K.config, fid, core.VIOLATED, "an unsigned value is passed as negative to pad_integral", loc)
    if prefix[0] == "S" and prefix[1] != prefix_want:
        return core.Ob(key, PROP, "F", K.config, fid, core.VIOLATED, "prefix %r where %s requires %r" % (prefix[1], tname, prefix_want), loc)
    if len(conv) == 1 and len(conv[0][2]) == 2 and conv[0][2][1][0] == "K":
        r = conv[0][2][1][2]
        if r != radix_want:
            return core.Ob(key, PROP, "F", K.config, fid, core.VIOLATED, "different constant: the numeral is produced in radix %d where %s requires radix %d" % (r, tname, radix_want), loc)
        if conv[0][2][0] == ("P", 0) and flag == ("K", "bool", 1) and prefix == ("S", prefix_want):
            return core.Ob(key, PROP, "F", K.config, fid, core.PROVED, "pad_integral(f, true, %r, to_str_radix(self, %d))" % (prefix_want, radix_want), loc)
    return core.Ob(key, PROP, "F", K.config, fid, core.UNDECIDED, "unknown shape: " + nf.show_term(pads[0])[:120], loc)

"""C05 - shifts and rotations.

Decided (G): amount-vs-BITS routing of every shift form on amount representatives {0,1,7,8,BITS-1,BITS,BITS+1,
BITS+8,2*BITS-1,u32::MAX} and pattern representatives: checked (None <=> s >= BITS), overflowing (flag <=> s >= BITS;
value = shift by s mod BITS when BITS is a power of two), wrapping, strict, unsuffixed in both build modes,
unbounded (0 / -1 fill), sign fill of signed right shifts; rotations rotate by n mod BITS at *every* width
(digit count 3 gives widths 24/48/96/192 that are not powers of two) and rotate_right inverts rotate_left.
The internal shifters / digit rotation are trusted by contract (they move bits by exactly s < BITS places).
Not decided: that the internal shifters move bits correctly (digit offset + bit offset + carry).
"""
from .common import *
from . import arith
from analysis import core
from analysis.guards import PI

PROP = "C05"
INFO = dict(
    explanation="Clause decided: every shift form routes on (amount vs BITS, sign) as documented and hands the unmodified amount to the internal shifter; "
                "rotations reduce the amount modulo BITS for every width, including widths that are not powers of two.",
    not_decided="bit movement inside unchecked_shl_internal / unchecked_shr_pad_internal / unchecked_rotate_left",
)


def shl_exact(A):
    return lambda W, a, s: a << s if s < 10 ** 4 else 0


def obligations(ctx, tier):
    out = []
    configs = ["Kd", "Kr"] if tier == "quick" else ["Kd", "Kr", "Kd0", "Kr0"]
    for cfg in configs:
        K = ctx.k(cfg)
        for A in ADTS:
            sg = is_signed(A)
            T = T_(A)
            for d in ("shl", "shr"):
                cls = "overflow(%s)" % d
                for form in ("checked", "overflowing", "wrapping", "strict", "plain", "unbounded"):
                    name = d if form == "plain" else "%s_%s" % (form, d)
                    out += core.g_row(K, PROP, inh(A, name), arith.reps(A, "Ts", shift_expect(A, d, form, cls, K.debug)))
                out += core.g_row(K, PROP, tr(A, OPS + d.capitalize(), ["u32"], d),
                                  arith.reps(A, "Ts", shift_expect(A, d, "plain", cls, K.debug)))
            # ---- the operator with every primitive amount type: in-range amounts shift by exactly that amount in both
            #      build modes; out-of-range / negative amounts panic with debug assertions
            for d in ("shl", "shr"):
                for R in PRIM_INTS:
                    if R == "u32":
                        continue
                    out += core.g_row(K, PROP, tr(A, OPS + d.capitalize(), [R], d), prim_amount_reps(A, R, d, "overflow(%s)" % d, K.debug))
            for d in ("shl", "shr"):
                def un(W, env, d=d, A=A):
                    a, s_ = env[0].v, env[1].v
                    w = W.bits(A)
                    if s_ >= w:
                        return ("any",)
                    return ("val", W.wrap(A, (pat(W, A, a) << s_) if d == "shl" else (a >> s_)))
                out += core.g_row(K, PROP, inh(A, "unchecked_" + d), arith.reps(A, "Ts", un))
            for d in ("rotate_left", "rotate_right"):
                out += core.g_row(K, PROP, inh(A, d), arith.reps(A, "Ts", rot_expect(A, d)))
    return out


RBITS = {"u8": 8, "u16": 16, "u32": 32, "u64": 64, "u128": 128, "usize": 64, "i8": 8, "i16": 16, "i32": 32, "i64": 64, "i128": 128, "isize": 64}
AMOUNT_CANDS = [0, 1, 7, 31, 33, 63, 64, 65, 100, 127, 128, 191, 192, 255, 256, 1000, 65535, 1 << 31, (1 << 32) - 1, 1 << 32, 1 << 40,
                (1 << 63) - 1, -1, -7, -128]


def prim_amount_reps(A, R, d, cls, debug):
    b = RBITS[R]
    lo, hi = (-(1 << (b - 1)), (1 << (b - 1)) - 1) if R[0] == "i" else (0, (1 << b) - 1)
    amts = [s_ for s_ in AMOUNT_CANDS if lo <= s_ <= hi]
    vals = [(n, f) for n, f in arith._values(A) if n in ("1", "5", "MAX", "MIN", "n1", "half", "top")]

    def exp(W, env):
        a, s_ = env[0].v, env[1].v
        w = W.bits(A)
        if 0 <= s_ < w:
            return ("val", W.wrap(A, (pat(W, A, a) << s_) if d == "shl" else (a >> s_)))
        return ("panic", cls) if debug else ("normal",)
    out = []
    for n, f in vals:
        for s_ in amts:
            out.append(("%s_%s" % (n, str(s_).replace("-", "n")),
                        (lambda f=f, s_=s_: lambda W: {0: W.wrap(A, f(W)), 1: PI(R, s_)})(), exp))
    return out


def pat(W, A, v):
    return v & ((1 << W.bits(A)) - 1)


def shift_expect(A, d, form, cls, debug):
    def f(W, env):
        a, s = env[0].v, env[1].v
        w = W.bits(A)
        big = s >= w
        pow2 = w & (w - 1) == 0

        def sh(x, n):
            return W.wrap(A, (pat(W, A, x) << n) if d == "shl" else (x >> n))
        if form == "checked":
            return ("none",) if big else ("some", sh(a, s))
        if form == "unbounded":
            if big:
                return ("val", W.wrap(A, -1 if (d == "shr" and a < 0) else 0))
            return ("val", sh(a, s))
        if form == "overflowing":
            if not big:
                return ("val", ("tuple", (sh(a, s), False)))
            return ("val", ("tuple", (sh(a, s % w) if pow2 else None, True)))
        if form == "wrapping":
            if not big:
                return ("val", sh(a, s))
            return ("val", sh(a, s % w)) if pow2 else ("normal",)
        if form == "strict" or (form == "plain" and debug):
            return ("panic", cls) if big else ("val", sh(a, s))
        # unsuffixed without debug assertions: the wrapped result
        if not big:
            return ("val", sh(a, s))
        return ("val", sh(a, s % w)) if pow2 else ("normal",)
    return f


def rot_expect(A, d):
    def f(W, env):
        a, n = env[0].v, env[1].v
        w = W.bits(A)
        p = pat(W, A, a)
        k = n % w
        if d == "rotate_right":
            k = (w - k) % w
        r = ((p << k) | (p >> (w - k))) if k else p
        return ("val", W.wrap(A, r))
    return f

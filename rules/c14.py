"""C14 - float <-> integer casts.

Decided (G, interprocedural guard walk with IEEE-754 values as bit patterns): float -> integer casts of
representative f32 / f64 values (NaN, +-inf, +-0, fractions below one, values with a fractional part,
values at / just below / above the target's bounds, negative values) give Rust's `as` result (truncate toward
zero, NaN -> 0, saturate); integer -> float casts of representative integers (exact, ties both ways, carry into
the exponent, first value that rounds to infinity) give the nearest float, ties to even, +-inf beyond the largest
finite float.  Primitive digit import/export (`CastFrom<u32> for BUint` ...) and the internal shifters are
trusted by contract.
Not decided: other inputs; the digit loops.
"""
import math
from fractions import Fraction

from .common import *
from . import arith
from analysis import core
from analysis.guards import FL, PI, BN

PROP = "C14"
INFO = dict(
    explanation="Clause decided: the guard structure of cast_uint_from_float / cast_float_from_uint and of the signed wrappers routes every representative "
                "float / integer to the value Rust's `as` produces (special values, |x| < 1, truncation, saturation bounds, ties-to-even rounding, infinity threshold).",
    not_decided="inputs other than the representatives; digit import/export loops",
)

F32 = [0.0, -0.0, 0.25, 0.5, 0.75, 0.9999999, 1.0, 1.5, 2.5, 255.9, 16777216.0, 3e9, 1e30, 3.4028235e38,
       float("inf"), float("-inf"), float("nan"), -0.25, -0.75, -1.0, -1.5, -255.9, -3e9, -1e30]
F64 = F32 + [4503599627370497.0, 9007199254740993.0, 1e300, -1e300, 0.9999999999999999, -0.9999999999999999]


def as_int(f, lo, hi):
    """Rust `f as intN`"""
    if f.is_nan():
        return 0
    if f.is_inf():
        return lo if f.sign else hi
    mag = f.magnitude()
    v = int(mag)              # truncation toward zero of the magnitude
    if f.sign:
        v = -v
    return min(max(v, lo), hi)


def bound_floats(W, A, ty):
    """floats at and around the target's bounds"""
    lo, hi = arith.rng(W, A)
    out = []
    for x in (hi, hi + 1, lo, lo - 1 if lo else 0, (hi + 1) // 2, (hi + 1) * 2):
        try:
            f = float(x)
        except OverflowError:
            continue
        if ty == "f32" and abs(f) > 3.4028234e38:
            continue
        out.append(f)
        out.append(math.nextafter(f, 0.0))
        out.append(-f)
    return out or [1.0, 3.4028235e38, -3.4028235e38]


def round_to_float(x, ty):
    """nearest-even rounding of a non-negative integer to f32/f64, as bits"""
    dig = 24 if ty == "f32" else 53
    ebits = 8 if ty == "f32" else 11
    bias = (1 << (ebits - 1)) - 1
    if x == 0:
        return 0
    b = x.bit_length()
    if b <= dig:
        mant, e = x << (dig - b), b - 1
    else:
        sh = b - dig
        mant = x >> sh
        rem = x & ((1 << sh) - 1)
        half = 1 << (sh - 1)
        if rem > half or (rem == half and (mant & 1)):
            mant += 1
        e = b - 1
        if mant >> dig:
            mant >>= 1
            e += 1
    if e > bias:
        return ((1 << ebits) - 1) << (dig - 1)       # infinity
    return ((e + bias) << (dig - 1)) | (mant & ((1 << (dig - 1)) - 1))


def int_values(W, A, ty):
    dig = 24 if ty == "f32" else 53
    w = W.bits(A)
    lo, hi = arith.rng(W, A)
    vals = {0, 1, 2, 3, 7, hi, hi - 1, lo, lo + 1 if lo else 1, (1 << dig) - 1, 1 << dig, (1 << dig) + 1, (1 << dig) + 2, (1 << dig) + 3,
            (1 << (dig + 1)) + 2, (1 << (dig + 1)) + 6, (1 << (dig + 3)) - 1, 3 << (dig + 4), ((1 << (dig + 1)) - 1) << 5}
    for k in (w // 2, w - 2, 100, 127, 128, 129):
        if k < w:
            vals |= {1 << k, (1 << k) + (1 << (k - dig)) if k > dig else 1, (1 << k) + (3 << (k - dig - 1)) if k > dig + 1 else 1,
                     ((1 << (dig + 1)) - 1) << (k - dig) if k > dig else 1}
    for k in (60, 62, 100, w - 2):
        if dig < k < w:
            vals |= {(1 << k) + (1 << (k - dig)) + 1, (1 << k) + (1 << (k - dig)) - 1, (1 << k) + (3 << (k - dig)) + 1,
                     (1 << k) + (1 << (k - dig)) + (1 << (k - 54)) if k > 54 else 1}
    out = []
    for v in sorted(vals):
        if lo <= v <= hi:
            out.append(v)
        if A in SIGNED and lo <= -v <= hi:
            out.append(-v)
    return sorted(set(out))


def obligations(ctx, tier):
    out = []
    configs = ["Kd", "Kr"] if tier == "quick" else ["Kd", "Kr", "Kd0", "Kr0"]
    for cfg in configs:
        K = ctx.k(cfg)
        for A in ADTS:
            for ty, base in (("f32", F32), ("f64", F64)):
                # ---- float -> integer
                fid = tr(A, "cast::CastFrom", [ty], "cast_from")

                def exp_fn(W, env, A=A):
                    lo, hi = arith.rng(W, A)
                    return ("val", W.wrap(A, as_int(env[0], lo, hi)))
                reps = []
                for i, x in enumerate(base):
                    reps.append(("%s_%r" % (ty, x), (lambda x=x, ty=ty: lambda W: {0: FL.of(ty, x)})(), exp_fn))
                for j in range(18):
                    def env_fn(W, j=j, A=A, ty=ty):
                        bf = bound_floats(W, A, ty)
                        return {0: FL.of(ty, bf[j % len(bf)])}
                    reps.append(("%s_bound%d" % (ty, j), env_fn, exp_fn))
                out += core.g_row(K, PROP, fid, reps)
                # ---- integer -> float
                fid2 = "<%s as cast::CastFrom<%s>>::cast_from" % (ty, T_(A))

                def exp2(W, env, A=A, ty=ty):
                    v = env[0].v
                    bits = round_to_float(abs(v), ty)
                    if v < 0:
                        bits |= 1 << (31 if ty == "f32" else 63)
                    return ("val", FL(ty, bits))
                reps2 = []
                for j in range(110):
                    def env2(W, j=j, A=A, ty=ty):
                        iv = int_values(W, A, ty)
                        return {0: W.wrap(A, iv[j % len(iv)])}
                    reps2.append(("%s_int%d" % (ty, j), env2, exp2))
                out += core.g_row(K, PROP, fid2, reps2)
    return out

"""C11 - radix output.

Decided: G - radix range guards of to_radix_be / to_radix_le (panic exactly outside 2..=256); dispatch
by radix class (decimal / other -> repeated division, power of two dividing the digit width -> exact
bit slicing, other powers of two -> inexact bit slicing); F - signed forms are the unsigned forms on the bit pattern;
to_radix_be has the same dispatch as to_radix_le (sibling agreement); round-trip side: the string parser's byte-to-digit
table accepts every digit character the printer can emit (shared with C10); P+/P- - the radix panic is reachable from
to_str_radix / to_radix_*, no other API-contract class.
Not decided: the numerals themselves (bit slicing, repeated division, ASCII mapping inside the loops).
"""
from .common import *
from . import arith, c10
from analysis import core, audit
from analysis.guards import PI

PROP = "C11"
INFO = dict(
    explanation="Clause decided: radix guards of the digit-vector printers, the radix-class dispatch (one-sided), signed == unsigned on the pattern, the parse table accepts all 36 digit characters in both cases; no other panic class.",
    not_decided="the digit sequences / strings produced by the conversion loops, including the zero case (vector results are not modelled)",
    assumptions=["P- rows are a may-analysis restricted to API-contract panic classes"],
)


def obligations(ctx, tier):
    out = []
    aud = audit.default()
    configs = ["Kd", "Kr"] if tier == "quick" else ["Kd", "Kr", "Kd0", "Kr0"]
    for cfg in configs:
        K = ctx.k(cfg)
        for A in ADTS:
            sg = is_signed(A)
            U = A if not sg else TWIN[A]
            dbits = {"u8": 8, "u16": 16, "u32": 32, "u64": 64}[DIGIT[A]]
            for m in ("to_radix_be", "to_radix_le"):
                reps = []
                for r in (0, 1, 257, 1000):
                    reps.append(("r%d" % r, (lambda r=r, A=A: lambda W: {0: W.wrap(A, 5), 1: PI("u32", r)})(), expect(("panic", "radix_range(256)"))))
                for r in ((2, 3, 8, 10, 16, 36, 100, 128, 255, 256) if not sg else ()):
                    lg = r.bit_length() - 1
                    if r & (r - 1):
                        want = "to_radix_digits_le"
                    elif dbits % lg == 0:
                        want = "to_bitwise_digits_le"
                    else:
                        want = "to_inexact_bitwise_digits_le"
                    if r == 256 and dbits == 8:
                        continue    # byte copy fast path: an inline loop, not a named terminal
                    # the exact slicer is only valid when the digit width is a multiple of log2(radix): reaching it otherwise is
                    # wrong whatever else changed (one-sided: the inexact slicer is general)
                    wrong = ("::to_bitwise_digits_le",) if want == "to_inexact_bitwise_digits_le" else ()
                    reps.append(("r%d_value" % r, (lambda r=r, A=A: lambda W: {0: W.wrap(A, 1000003), 1: PI("u32", r)})(),
                                 expect(("ret_call", "::" + want) + wrong)))
                out += core.g_row(K, PROP, inh(A, m), reps)
                out.append(core.p_plus(K, PROP, inh(A, m), "radix_range(256)"))
                out += core.p_minus(K, PROP, inh(A, m), {"radix_range(256)"}, aud)
                if sg:
                    out.append(core.f_row(K, PROP, inh(A, m), call(inh(U, m), field(P(0), "bits"), P(1))))
            out.append(core.p_plus(K, PROP, inh(A, "to_str_radix"), "radix_range(36)"))
            # to_str_radix checks 2..=36 first and then calls to_radix_le, whose own 2..=256 check is subsumed
            out += core.p_minus(K, PROP, inh(A, "to_str_radix"), {"radix_range(36)", "radix_range(256)"}, aud)
            if not sg:
                for o in c10.digit_table_rows(K, A):
                    o.prop = PROP
                    o.key = o.key.replace("C10:", "C11:", 1)
                    out.append(o)
    return out

"""C13 - checked conversions.

Decided: F - from_digits / digits / From<[digit; N]> / Into<[digit; N]> expose the digit array unchanged,
From<bool|char> == the cast; G - TryFrom<signed bnum> for unsigned primitives (negative => Err, else the unsigned
conversion of the pattern), TryFrom<signed primitive> for unsigned bnum (negative => Err), from_digit places its
argument in digit 0; P- - no API-contract panic class from any TryFrom / BTryFrom impl.
The unsigned conversion loops are trusted by contract.
Not decided: representability tests inside the loops (leading_zeros comparisons, padding-digit scans), BTryFrom
between widths (needs two independent digit counts).
"""
from .common import *
from . import arith, c09
from analysis import core, audit
from analysis.guards import PI, BN

PROP = "C13"
INFO = dict(
    explanation="Clause decided: digit-array accessors are identity on the representation; sign guards of the mixed-sign TryFrom impls; no conversion impl can raise an API-contract panic.",
    not_decided="representability loops; BTryFrom between different widths",
    assumptions=["P- rows are a may-analysis restricted to API-contract panic classes"],
)
UPRIMS = ["u8", "u16", "u32", "u64", "u128", "usize"]
IPRIMS = ["i8", "i16", "i32", "i64", "i128", "isize"]


def obligations(ctx, tier):
    out = []
    aud = audit.default()
    configs = ["Kd", "Kr"] if tier == "quick" else ["Kd", "Kr", "Kd0", "Kr0"]
    for cfg in configs:
        K = ctx.k(cfg)
        F = K.F
        for A in ADTS:
            sg = is_signed(A)
            D = DIGIT[A]
            T = T_(A)
            if not sg:
                out.append(core.f_row(K, PROP, inh(A, "from_digits"), ctor(A, A, ["digits"], 0, P(0))))
                out.append(core.f_row(K, PROP, inh(A, "digits"), field(P(0), "digits")))
                out.append(core.f_row(K, PROP, tr(A, "core::convert::From", ["[%s; N]" % D], "from"), call(inh(A, "from_digits"), P(0))))
                out.append(core.f_row(K, PROP, "<[%s; N] as core::convert::From<%s>>::from" % (D, T), field(P(0), "digits")))

                def fd(W, env, A=A):
                    return ("val", W.wrap(A, env[0].v))
                dm = {"u8": 8, "u16": 16, "u32": 32, "u64": 64}[D]
                out += core.g_row(K, PROP, inh(A, "from_digit"),
                                  [(str(v), (lambda v=v, D=D: lambda W: {0: PI(D, v)})(), fd) for v in (0, 1, 5, (1 << dm) - 1, 1 << (dm - 1))])
                # TryFrom<signed primitive> for unsigned bnum
                for ty in IPRIMS:
                    fid = tr(A, "core::convert::TryFrom", [ty], "try_from")
                    if F.lookup(fid) is None:
                        continue

                    def ex(W, env, A=A):
                        v = env[0].v
                        if v < 0:
                            return ("val", ("Err", None)) if False else ("errv",)
                        if v >= (1 << W.bits(A)):
                            return ("any",)
                        return ("okv", W.wrap(A, v))
                    out += core.g_row(K, PROP, fid, [(n, (lambda v=v, ty=ty: lambda W: {0: PI(ty, v)})(), ex) for n, v in c09.prim_reps(ty)])
            else:
                # TryFrom<signed bnum> for unsigned primitives: negative => Err, else the unsigned conversion of the pattern
                for ty in UPRIMS:
                    fid = "<%s as core::convert::TryFrom<%s>>::try_from" % (ty, T)
                    if F.lookup(fid) is None:
                        continue

                    def ex2(W, env, ty=ty):
                        v = env[0].v
                        b = {"u8": 8, "u16": 16, "u32": 32, "u64": 64, "u128": 128, "usize": 64}[ty]
                        if v < 0 or v >= (1 << b):
                            return ("errv",)
                        return ("okv", PI(ty, v))
                    out += core.g_row(K, PROP, fid, arith.reps(A, "T", ex2))
            # ---- From<bool> and From<unsigned primitive>: the same numeric value whenever the target can hold it
            out += core.g_row(K, PROP, tr(A, "core::convert::From", ["bool"], "from"),
                              [(n, (lambda v=v: lambda W: {0: v})(), (lambda A=A: lambda W, env: ("val", W.wrap(A, int(env[0]))))()) for n, v in (("f", False), ("t", True))])
            for ty in UPRIMS:
                fid = tr(A, "core::convert::From", [ty], "from")
                if F.lookup(fid) is None:
                    continue

                def exfrom(W, env, A=A):
                    v = env[0].v
                    lo_, hi_ = arith.rng(W, A)
                    return ("val", W.wrap(A, v)) if lo_ <= v <= hi_ else ("any",)      # README limitation: wider / same-width-unsigned sources
                b_ = {"u8": 8, "u16": 16, "u32": 32, "u64": 64, "u128": 128, "usize": 64}[ty]
                extra = [("x%d" % k, v) for k, v in enumerate([200, 255, 256, 1000, 65535, 65536, 1 << 31, (1 << 32) - 1, 1 << 32, 1 << 40, (1 << 63) - 1,
                                                                1 << 63, (1 << 64) - 1, 1 << 64, 1 << 100, (1 << 128) - 1]) if v < (1 << b_)]
                out += core.g_row(K, PROP, fid, [(n, (lambda v=v, ty=ty: lambda W: {0: PI(ty, v)})(), exfrom) for n, v in c09.prim_reps(ty) + extra])
            # ---- From<signed primitive> for signed bnum: the same numeric value whenever the target can hold it
            if sg:
                for ty in ("i8", "i16", "i32", "i64", "i128", "isize"):
                    fid = tr(A, "core::convert::From", [ty], "from")
                    if F.lookup(fid) is None:
                        continue
                    b_ = {"i8": 8, "i16": 16, "i32": 32, "i64": 64, "i128": 128, "isize": 64}[ty]

                    def exfrom_s(W, env, A=A, b_=b_):
                        # a target narrower than the source primitive is the README limitation (no row demands anything there)
                        return ("val", W.wrap(A, env[0].v)) if W.bits(A) >= b_ else ("any",)
                    extra = [("y%d" % k, v) for k, v in enumerate([200, -200, 1 << 31, -(1 << 31) - 1, (1 << 63) - 1, 1 << 63, -(1 << 63), -(1 << 63) - 1,
                                                                    (1 << 64) - 1, 1 << 64, -(1 << 64), (1 << 100) + 5, -(1 << 100)]) if -(1 << (b_ - 1)) <= v < (1 << (b_ - 1))]
                    out += core.g_row(K, PROP, fid, [(n, (lambda v=v, ty=ty: lambda W: {0: PI(ty, v)})(), exfrom_s) for n, v in c09.prim_reps(ty) + extra])
            # ---- TryFrom<bnum> for every primitive: whatever is decided before the digit loop (the single-digit fast path
            #      when the digit is wider than the target) must be Ok exactly for representable values
            out += to_prim_rows(K, A)
            out.append(core.f_row(K, PROP, tr(A, "core::convert::From", ["bool"], "from"), call(tr(A, "cast::CastFrom", ["bool"], "cast_from"), P(0))))
            if not sg:
                out.append(core.f_row(K, PROP, tr(A, "core::convert::From", ["char"], "from"), call(tr(A, "cast::CastFrom", ["char"], "cast_from"), P(0))))
        out += btryfrom_rows(K)
        for fid, di in sorted(F.by_fid.items()):
            d = F.defs[di]
            if d.get("trait") not in ("core::convert::TryFrom", "BTryFrom") or di not in F.bodies or d["kind"] != "AssocFn":
                continue
            out += core.p_minus(K, PROP, fid, set(), aud)
            # information flow: no rejection is decided without looking at the value (0 is representable everywhere)
            out.append(core.t_row(K, PROP, fid, source_locals=(), content_locals=(1,), any_err=True))
    return out


DBITS = {"BUint": 64, "BInt": 64, "BUintD32": 32, "BIntD32": 32, "BUintD16": 16, "BIntD16": 16, "BUintD8": 8, "BIntD8": 8}


def btryfrom_rows(K):
    """BTryFrom between two bnum types: Ok exactly when the source value is representable in the target.

    The impl is `<Target<M> as BTryFrom<Source<N>>>`: the source has N digits (the world's digit count), the target M."""
    import re
    out = []
    F = K.F
    for Tn in ADTS:
        for Sn in ADTS:
            fid = "<%s<M> as BTryFrom<%s<N>>>::try_from" % (Tn, Sn)
            if F.lookup(fid) is None:
                out.append(core.missing(PROP, "G", K, fid))
                continue
            sb, tb = DBITS[Sn], DBITS[Tn]
            # (N, M) pairs: source narrower, equal width, wider than the target
            pairs = set()
            for tw in (64, 128, 192):
                for sw in (64, 128, 192, 256):
                    if sw % sb == 0 and tw % tb == 0:
                        pairs.add((sw // sb, tw // tb))
            # target widths that are not a whole number of *source* digits (a source digit straddles the target's top)
            for tw in (24, 40, 48, 72, 80, 96):
                for sw in (32, 64, 128):
                    if tw % tb == 0 and sw % sb == 0 and tw % sb != 0:
                        pairs.add((sw // sb, tw // tb))
            pairs = sorted(pairs)

            def mk(kind, Sn=Sn, Tn=Tn):
                def env_fn(W):
                    sw, tw = W.bits(Sn), W.bits(Tn, W.m)
                    s_lo, s_hi = (-(1 << (sw - 1)), (1 << (sw - 1)) - 1) if Sn in SIGNED else (0, (1 << sw) - 1)
                    t_lo, t_hi = (-(1 << (tw - 1)), (1 << (tw - 1)) - 1) if Tn in SIGNED else (0, (1 << tw) - 1)
                    v = {"zero": 0, "one": 1, "neg1": -1, "t_hi": t_hi, "t_hi1": t_hi + 1, "t_lo": t_lo, "t_lo1": t_lo - 1,
                         "s_hi": s_hi, "s_lo": s_lo, "t_top": 1 << (tw - 1), "t_topm1": (1 << (tw - 1)) - 1, "mid": 12345}[kind]
                    v = min(max(v, s_lo), s_hi)
                    return {0: W.wrap(Sn, v)}

                def exp_fn(W, env):
                    tw = W.bits(Tn, W.m)
                    t_lo, t_hi = (-(1 << (tw - 1)), (1 << (tw - 1)) - 1) if Tn in SIGNED else (0, (1 << tw) - 1)
                    return ("is_ok",) if t_lo <= env[0].v <= t_hi else ("is_err",)
                return (kind, env_fn, exp_fn)
            reps = [mk(k) for k in ("zero", "one", "neg1", "t_hi", "t_hi1", "t_lo", "t_lo1", "s_hi", "s_lo", "t_top", "t_topm1", "mid")]
            old = core.WORLDS_FOR
            core.WORLDS_FOR = (lambda pairs: lambda f: pairs)(pairs)
            try:
                out += core.g_row(K, PROP, fid, reps)
            finally:
                core.WORLDS_FOR = old
    return out


PB = {"u8": 8, "u16": 16, "u32": 32, "u64": 64, "u128": 128, "usize": 64, "i8": 8, "i16": 16, "i32": 32, "i64": 64, "i128": 128, "isize": 64}


def to_prim_rows(K, A):
    out = []
    T = T_(A)
    for ty in PRIM_INTS:
        fid = "<%s as core::convert::TryFrom<%s>>::try_from" % (ty, T)
        if K.F.lookup(fid) is None:
            continue
        b = PB[ty]
        lo, hi = (-(1 << (b - 1)), (1 << (b - 1)) - 1) if ty[0] == "i" else (0, (1 << b) - 1)
        cands = [0, 1, 5, hi, hi - 1, hi + 1, (hi + 1) // 2, (hi + 1) // 2 - 1, 2 * (hi + 1) - 1, 200, 255, 256, 1 << 40]
        if is_signed(A):
            cands += [-1, -5, lo, lo + 1, lo - 1, -(1 << 40), -200]

        def ex(W, env, lo=lo, hi=hi, ty=ty):
            v = env[0].v
            return ("okv", PI(ty, v)) if lo <= v <= hi else ("errv",)
        reps = []
        for v in cands:
            def env_fn(W, v=v):
                alo, ahi = arith.rng(W, A)
                return {0: W.wrap(A, min(max(v, alo), ahi))}
            reps.append(("v%s" % str(v).replace("-", "n"), env_fn, ex))
        out += core.g_row(K, PROP, fid, reps)
    return out

"""C13 - checked conversions.

Decided: F - from_digits / digits / From<[digit; N]> / Into<[digit; N]> expose the digit array unchanged,
From<bool|char> == the cast; G - TryFrom<signed bnum> for unsigned primitives (negative => Err, else the unsigned
conversion of the pattern), TryFrom<signed primitive> for unsigned bnum (negative => Err), from_digit places its
argument in digit 0; P- - no API-contract panic class from any TryFrom / BTryFrom impl.
The unsigned conversion loops are trusted by contract.
Not decided: representability tests inside the loops (leading_zeros comparisons, padding-digit scans), BTryFrom
between widths (needs two independent digit counts).
"""
from .common import *
from . import arith, c09
from analysis import core, audit
from analysis.guards import PI, BN

PROP = "C13"
INFO = dict(
    explanation="Clause decided: digit-array accessors are identity on the representation; sign guards of the mixed-sign TryFrom impls; no conversion impl can raise an API-contract panic.",
    not_decided="representability loops; BTryFrom between different widths",
    assumptions=["P- rows are a may-analysis restricted to API-contract panic classes"],
)
UPRIMS = ["u8", "u16", "u32", "u64", "u128", "usize"]
IPRIMS = ["i8", "i16", "i32", "i64", "i128", "isize"]


def obligations(ctx, tier):
    out = []
    aud = audit.default()
    configs = ["Kd", "Kr"] if tier == "quick" else ["Kd", "Kr", "Kd0", "Kr0"]
    for cfg in configs:
        K = ctx.k(cfg)
        F = K.F
        for A in ADTS:
            sg = is_signed(A)
            D = DIGIT[A]
            T = T_(A)
            if not sg:
                out.append(core.f_row(K, PROP, inh(A, "from_digits"), ctor(A, A, ["digits"], 0, P(0))))
                out.append(core.f_row(K, PROP, inh(A, "digits"), field(P(0), "digits")))
                out.append(core.f_row(K, PROP, tr(A, "core::convert::From", ["[%s; N]" % D], "from"), call(inh(A, "from_digits"), P(0))))
                out.append(core.f_row(K, PROP, "<[%s; N] as core::convert::From<%s>>::from" % (D, T), field(P(0), "digits")))

                def fd(W, env, A=A):
                    return ("val", W.wrap(A, env[0].v))
                dm = {"u8": 8, "u16": 16, "u32": 32, "u64": 64}[D]
                out += core.g_row(K, PROP, inh(A, "from_digit"),
                                  [(str(v), (lambda v=v, D=D: lambda W: {0: PI(D, v)})(), fd) for v in (0, 1, 5, (1 << dm) - 1, 1 << (dm - 1))])
                # TryFrom<signed primitive> for unsigned bnum
                for ty in IPRIMS:
                    fid = tr(A, "core::convert::TryFrom", [ty], "try_from")
                    if F.lookup(fid) is None:
                        continue

                    def ex(W, env, A=A):
                        v = env[0].v
                        if v < 0:
                            return ("val", ("Err", None)) if False else ("errv",)
                        if v >= (1 << W.bits(A)):
                            return ("any",)
                        return ("okv", W.wrap(A, v))
                    out += core.g_row(K, PROP, fid, [(n, (lambda v=v, ty=ty: lambda W: {0: PI(ty, v)})(), ex) for n, v in c09.prim_reps(ty)])
            else:
                # TryFrom<signed bnum> for unsigned primitives: negative => Err, else the unsigned conversion of the pattern
                for ty in UPRIMS:
                    fid = "<%s as core::convert::TryFrom<%s>>::try_from" % (ty, T)
                    if F.lookup(fid) is None:
                        continue

                    def ex2(W, env, ty=ty):
                        v = env[0].v
                        b = {"u8": 8, "u16": 16, "u32": 32, "u64": 64, "u128": 128, "usize": 64}[ty]
                        if v < 0 or v >= (1 << b):
                            return ("errv",)
                        return ("okv", PI(ty, v))
                    out += core.g_row(K, PROP, fid, arith.reps(A, "T", ex2))
            out.append(core.f_row(K, PROP, tr(A, "core::convert::From", ["bool"], "from"), call(tr(A, "cast::CastFrom", ["bool"], "cast_from"), P(0))))
            if not sg:
                out.append(core.f_row(K, PROP, tr(A, "core::convert::From", ["char"], "from"), call(tr(A, "cast::CastFrom", ["char"], "cast_from"), P(0))))
        for fid, di in sorted(F.by_fid.items()):
            d = F.defs[di]
            if d.get("trait") not in ("core::convert::TryFrom", "BTryFrom") or di not in F.bodies or d["kind"] != "AssocFn":
                continue
            out += core.p_minus(K, PROP, fid, set(), aud)
    return out

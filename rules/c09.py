"""C09 - integer casts.

Decided: G - cast_signed / cast_unsigned / to_bits / from_bits reinterpret the same bit pattern; every
`CastFrom<primitive> for BInt` and `CastFrom<BInt> for primitive` is the unsigned digit import/export on the same
pattern (value mod 2^BITS), `CastFrom<bool|char>`; F - AsPrimitive::as_ == CastFrom::cast_from;
P- - no API-contract panic class is reachable from any CastFrom impl (audited may-analysis).
The unsigned digit import / export loops are trusted by contract.
Not decided: the digit loops (extension, truncation, split / pack across digit sizes), bnum -> bnum casts.
"""
import re

from .common import *
from . import arith
from analysis import core, audit
from analysis.guards import PI

PROP = "C09"
INFO = dict(
    explanation="Clause decided: signed casts and reinterpretations are the unsigned ones on the same two's-complement pattern; no CastFrom impl can raise an API-contract panic.",
    not_decided="digit loops of the unsigned casts; casts between bnum types of different digit type / width",
    assumptions=["P- rows are a may-analysis restricted to API-contract panic classes; audited triples in spec/panic_audit.json"],
)

PRIM_VALS = {t: None for t in PRIM_INTS}


def prim_reps(ty):
    b = {"u8": 8, "u16": 16, "u32": 32, "u64": 64, "u128": 128, "usize": 64, "i8": 8, "i16": 16, "i32": 32, "i64": 64, "i128": 128, "isize": 64}[ty]
    if ty.startswith("i"):
        vs = [0, 1, -1, 5, -7, (1 << (b - 1)) - 1, -(1 << (b - 1)), -(1 << (b - 1)) + 1, 1 << (b // 2), -(1 << (b // 2))]
    else:
        vs = [0, 1, 5, (1 << b) - 1, (1 << (b - 1)), (1 << (b - 1)) - 1, 1 << (b // 2)]
    return [(str(v).replace("-", "n"), v) for v in vs]


def obligations(ctx, tier):
    out = []
    aud = audit.default()
    configs = ["Kd", "Kr"] if tier == "quick" else ["Kd", "Kr", "Kd0", "Kr0"]
    for cfg in configs:
        K = ctx.k(cfg)
        F = K.F
        for A in ADTS:
            sg = is_signed(A)
            B = TWIN[A]
            if sg:
                out += core.g_row(K, PROP, inh(A, "cast_unsigned"), arith.reps(A, "T", (lambda B=B: lambda W, env: ("val", W.wrap(B, env[0].v)))()))
                out += core.g_row(K, PROP, inh(A, "to_bits"), arith.reps(A, "T", (lambda B=B: lambda W, env: ("val", W.wrap(B, env[0].v)))()))
                out += core.g_row(K, PROP, inh(A, "from_bits"),
                                  arith.reps(B, "T", (lambda A=A: lambda W, env: ("val", W.wrap(A, env[0].v)))()))
            else:
                out += core.g_row(K, PROP, inh(A, "cast_signed"), arith.reps(A, "T", (lambda B=B: lambda W, env: ("val", W.wrap(B, env[0].v)))()))
            # primitive <-> signed bnum through the unsigned import / export
            if sg:
                for ty in PRIM_INTS:
                    fid = tr(A, "cast::CastFrom", [ty], "cast_from")
                    out += core.g_row(K, PROP, fid, [(n, (lambda v=v, ty=ty: lambda W: {0: PI(ty, v)})(),
                                                      (lambda A=A: lambda W, env: ("val", W.wrap(A, env[0].v)))()) for n, v in prim_reps(ty)])
                    fid2 = "<%s as cast::CastFrom<%s>>::cast_from" % (ty, T_(A))
                    out += core.g_row(K, PROP, fid2, arith.reps(A, "T", (lambda ty=ty: lambda W, env: ("val", _prim(ty, env[0].v)))()))
                    # values whose lowest digit has its top bit set / is all ones (a digit must never be sign-extended on its own)
                    db = {"u8": 8, "u16": 16, "u32": 32, "u64": 64}[DIGIT[A]]
                    dv = [("dtop", 1 << (db - 1)), ("dmax", (1 << db) - 1), ("ndtop", -(1 << (db - 1))), ("d2top", (1 << (2 * db - 1)) + 5)]
                    out += core.g_row(K, PROP, fid2, [(n, (lambda v=v, A=A: lambda W: {0: W.wrap(A, v)})(),
                                                       (lambda ty=ty: lambda W, env: ("val", _prim(ty, env[0].v)))()) for n, v in dv])
            for ty, vals in (("bool", [("f", False), ("t", True)]),):
                fid = tr(A, "cast::CastFrom", [ty], "cast_from")
                out += core.g_row(K, PROP, fid, [(n, (lambda v=v: lambda W: {0: v})(), (lambda A=A: lambda W, env: ("val", W.wrap(A, int(env[0]))))()) for n, v in vals])
            out.append(core.f_row(K, PROP, tr(A, "cast::CastFrom", ["char"], "cast_from"),
                                  call(tr(A, "cast::CastFrom", ["u32"], "cast_from"), cast(P(0), "char", "u32"))))
        out += same_digit_cast_rows(K)
        # ---- P-: every CastFrom impl
        for fid, di in sorted(F.by_fid.items()):
            d = F.defs[di]
            if d.get("trait") != "cast::CastFrom" or di not in F.bodies or d["kind"] != "AssocFn":
                continue
            out += core.p_minus(K, PROP, fid, set(), aud)
        # ---- F: AsPrimitive forwards to CastFrom
        if "numtraits" in ctx_features(cfg):
            out += obligations_as_primitive(K, PROP)
    return out


def obligations_as_primitive(K, PROP):
    from analysis.facts import short
    F = K.F
    out = []
    for fid, di in sorted(F.by_fid.items()):
        d = F.defs[di]
        if d.get("trait") != "num_traits::AsPrimitive" or di not in F.bodies or d["kind"] != "AssocFn":
            continue
        tgt = d["trait_args"][0]
        src = d["self_ty"]
        want = "<%s as cast::CastFrom<%s>>::cast_from" % (short(tgt), short(src))
        if F.lookup(want) is None:
            if not re.search(r"B(U)?[Ii]nt", short(tgt) + short(src)):
                continue
        if F.lookup(want) is None and "<M>" in want and "<N>" in want:
            sw = want.replace("<M>", "<@>").replace("<N>", "<M>").replace("<@>", "<N>")
            out.append(core.f_row(K, PROP, fid, callg(sw, "::<M, N>", P(0))))
        else:
            out.append(core.f_row(K, PROP, fid, call(want, P(0))))
    return out


def ctx_features(cfg):
    from analysis import build
    return build.CONFIGS[cfg]["features"]


def _prim(ty, v):
    from analysis.guards import _wrap_prim
    return _wrap_prim(ty, v)


def same_digit_cast_rows(K):
    """bnum -> bnum casts within one digit type at (source digits M, target digits N) pairs: zero / sign extension and
    truncation are decided by the wrapper (M < N, sign -> fill digit); cast_up / cast_down are trusted by contract"""
    F = K.F
    out = []
    DB = {"BUint": 64, "BInt": 64, "BUintD32": 32, "BIntD32": 32, "BUintD16": 16, "BIntD16": 16, "BUintD8": 8, "BIntD8": 8}
    for Tn in ADTS:
        for Sn in ADTS:
            if True:
                fid = "<%s<N> as cast::CastFrom<%s<M>>>::cast_from" % (Tn, Sn)
                if F.lookup(fid) is None:
                    out.append(core.missing(PROP, "G", K, fid))
                    continue

                def mk(kind, Sn=Sn, Tn=Tn):
                    def env_fn(W):
                        sw = W.bits(Sn, W.m)
                        lo, hi = (-(1 << (sw - 1)), (1 << (sw - 1)) - 1) if Sn in SIGNED else (0, (1 << sw) - 1)
                        v = {"zero": 0, "one": 1, "neg1": -1 if Sn in SIGNED else hi, "hi": hi, "lo": lo, "mid": 0x1234567 % (hi + 1),
                             "top": 1 << (sw - 2), "negmid": -(0x7654321 % (hi + 1)) if Sn in SIGNED else hi - 5,
                             "alt": int("a5" * (sw // 8), 16) & ((1 << sw) - 1),
                             # machine-word boundaries (where a "fits in one word" shortcut would go wrong)
                             "b31": 1 << 31, "b32m1": (1 << 32) - 1, "b63": 1 << 63, "b64m1": (1 << 64) - 1, "b64": 1 << 64,
                             "b127": 1 << 127, "b128m1": (1 << 128) - 1, "nb63": -(1 << 63), "nb63m1": -(1 << 63) - 1,
                             "nb127": -(1 << 127), "nb127m1": -(1 << 127) - 1}[kind]
                        v = min(max(v, lo), hi) if kind != "alt" else v
                        return {0: W.wrap(Sn, v, W.m)}

                    def exp_fn(W, env):
                        return ("val", W.wrap(Tn, env[0].v))
                    return (kind, env_fn, exp_fn)
                reps = [mk(k) for k in ("zero", "one", "neg1", "hi", "lo", "mid", "top", "negmid", "alt",
                                        "b31", "b32m1", "b63", "b64m1", "b64", "b127", "b128m1", "nb63", "nb63m1", "nb127", "nb127m1")]
                old = core.WORLDS_FOR
                if DB[Tn] == DB[Sn]:
                    pairs = [(2, 1), (2, 3), (3, 2), (1, 2), (3, 3), (2, 2), (4, 1), (1, 4)]
                else:
                    # different digit types (the digit loops are not decided: anything before them is): (target digits N,
                    # source digits M) for widths 64 / 192 / 256 on either side, incl. sources wider than 128 bits
                    pairs = sorted({(tw // DB[Tn], sw // DB[Sn]) for tw in (64, 192, 256) for sw in (64, 192, 256)})
                core.WORLDS_FOR = (lambda pairs: lambda f: pairs)(pairs)
                try:
                    out += core.g_row(K, PROP, fid, reps)
                finally:
                    core.WORLDS_FOR = old
    return out

"""C06 - bit logic, bit counts, bit manipulation.

Decided (G): every signed method acts on the two's-complement pattern exactly like the unsigned method
(count_ones/zeros, leading/trailing zeros/ones, bits, bit, swap_bytes, reverse_bits, and/or/xor/not,
is_power_of_two negative => false); checked / wrapping / unsuffixed next_power_of_two route on
(is_power_of_two, bits == BITS) as documented, including the input 2^(BITS-1); bits(U) = BITS - leading_zeros.
The unsigned digit loops are trusted by contract.
Not decided: the unsigned counting / reversal loops, set_bit / bit addressing of the unsigned type.
"""
from .common import *
from . import arith
from analysis import core, audit
from analysis.guards import PI

PROP = "C06"
NOPANIC = ["count_ones", "count_zeros", "leading_zeros", "trailing_zeros", "leading_ones", "trailing_ones", "bits", "swap_bytes",
           "reverse_bits", "is_zero", "is_one", "is_power_of_two", "not", "bitand", "bitor", "bitxor"]
INFO = dict(
    explanation="Clause decided: signed bit operations are the unsigned operations on the same bit pattern; next_power_of_two family routing.",
    not_decided="the unsigned digit loops (early exits, bit addressing, reversal), set_bit",
)


def popcount(x):
    return bin(x).count("1")


def obligations(ctx, tier):
    out = []
    configs = ["Kd", "Kr"] if tier == "quick" else ["Kd", "Kr", "Kd0", "Kr0"]
    for cfg in configs:
        K = ctx.k(cfg)
        for A in ADTS:
            sg = is_signed(A)

            # none of the bit-logic / counting functions may reach an API-contract panic (audited may-analysis)
            for m in NOPANIC + ([] if sg else ["checked_next_power_of_two", "wrapping_next_power_of_two"]):
                out += core.p_minus(K, PROP, inh(A, m), set(), audit.default())

            def P_(W, v, A=A):
                return v & ((1 << W.bits(A)) - 1)

            def u32(fn, A=A):
                return lambda W, env: ("val", PI("u32", fn(W, P_(W, env[0].v), W.bits(A))))
            if sg:
                out += core.g_row(K, PROP, inh(A, "count_ones"), arith.reps(A, "T", u32(lambda W, p, w: popcount(p))))
                out += core.g_row(K, PROP, inh(A, "count_zeros"), arith.reps(A, "T", u32(lambda W, p, w: w - popcount(p))))
                out += core.g_row(K, PROP, inh(A, "leading_zeros"), arith.reps(A, "T", u32(lambda W, p, w: w - p.bit_length())))
                out += core.g_row(K, PROP, inh(A, "trailing_zeros"),
                                  arith.reps(A, "T", u32(lambda W, p, w: w if p == 0 else (p & -p).bit_length() - 1)))
                out += core.g_row(K, PROP, inh(A, "leading_ones"),
                                  arith.reps(A, "T", u32(lambda W, p, w: w - (p ^ ((1 << w) - 1)).bit_length())))
                out += core.g_row(K, PROP, inh(A, "trailing_ones"),
                                  arith.reps(A, "T", u32(lambda W, p, w: w if p == (1 << w) - 1 else ((~p) & (p + 1)).bit_length() - 1)))
                out += core.g_row(K, PROP, inh(A, "swap_bytes"),
                                  arith.reps(A, "T", (lambda A=A: lambda W, env: ("val", W.wrap(A, int.from_bytes(
                                      (env[0].v & ((1 << W.bits(A)) - 1)).to_bytes(W.bits(A) // 8, "little"), "big"))))()))
                out += core.g_row(K, PROP, inh(A, "reverse_bits"),
                                  arith.reps(A, "T", (lambda A=A: lambda W, env: ("val", W.wrap(A, int(
                                      bin(env[0].v & ((1 << W.bits(A)) - 1))[2:].zfill(W.bits(A))[::-1], 2))))()))
                out += core.g_row(K, PROP, inh(A, "is_power_of_two"),
                                  arith.reps(A, "T", lambda W, env: ("val", env[0].v > 0 and env[0].v & (env[0].v - 1) == 0)))
                out += core.g_row(K, PROP, inh(A, "not"), arith.reps(A, "T", (lambda A=A: lambda W, env: ("val", W.wrap(A, ~env[0].v)))()))
                for m, fn in (("bitand", lambda a, b: a & b), ("bitor", lambda a, b: a | b), ("bitxor", lambda a, b: a ^ b)):
                    out += core.g_row(K, PROP, inh(A, m),
                                      arith.reps(A, "TT", (lambda fn, A=A: lambda W, env: ("val", W.wrap(A, fn(env[0].v, env[1].v))))(fn)))
                out += core.g_row(K, PROP, inh(A, "bit"),
                                  arith.reps(A, "Ts", (lambda A=A: lambda W, env: ("val", bool((env[0].v >> env[1].v) & 1)) if env[1].v < W.bits(A) else ("normal",))()))
                # bits() of a signed value is the bit length of its two's-complement pattern (BITS for every negative value)
                out += core.g_row(K, PROP, inh(A, "bits"), arith.reps(A, "T", u32(lambda W, p, w: p.bit_length())))
                out += core.g_row(K, PROP, inh(A, "is_zero"), arith.reps(A, "T", lambda W, env: ("val", env[0].v == 0)))
                out += core.g_row(K, PROP, inh(A, "is_one"), arith.reps(A, "T", lambda W, env: ("val", env[0].v == 1)))
            else:
                out += core.g_row(K, PROP, inh(A, "bits"), arith.reps(A, "T", u32(lambda W, p, w: p.bit_length())))

                def npt(form, A=A, dbg=K.debug):
                    def f(W, env):
                        x = env[0].v
                        w = W.bits(A)
                        r = 1 if x <= 1 else 1 << (x - 1).bit_length()
                        over = r >= (1 << w)
                        if form == "checked":
                            return ("none",) if over else ("some", W.wrap(A, r))
                        if form == "wrapping" or (form == "plain" and not dbg):
                            return ("val", W.wrap(A, 0 if over else r))
                        return ("panic", "overflow(next_power_of_two)") if over else ("val", W.wrap(A, r))
                    return f
                vals = arith.reps(A, "T", None)
                for form, name in (("checked", "checked_next_power_of_two"), ("wrapping", "wrapping_next_power_of_two"), ("plain", "next_power_of_two")):
                    out += core.g_row(K, PROP, inh(A, name), [(n, e, npt(form)) for n, e, _ in vals] + extra_pow2(A, npt(form)))
                def sb(W, env, A=A):
                    x, i, v = env[0].v, env[1].v, env[2]
                    if i >= W.bits(A):
                        return ("normal",)
                    return ("self_after", W.wrap(A, (x | (1 << i)) if v else (x & ~(1 << i))))
                idxs = [("0", 0), ("1", 1), ("7", 7), ("8", 8), ("15", 15), ("16", 16), ("31", 31), ("32", 32), ("33", 33), ("63", 63),
                        ("64", 64), ("65", 65), ("Bm1", None)]
                sreps = []
                for vn, vf in arith.values(A)[::3]:
                    for in_, iv in idxs:
                        for bn_, bv in (("t", True), ("f", False)):
                            sreps.append(("%s_%s_%s" % (vn, in_, bn_),
                                          (lambda vf=vf, iv=iv, bv=bv, A=A: lambda W: {0: W.wrap(A, vf(W)), 1: PI("u32", iv if iv is not None else W.bits(A) - 1), 2: bv})(),
                                          sb))
                out += core.g_row(K, PROP, inh(A, "set_bit"), sreps)
                out += core.g_row(K, PROP, inh(A, "bit"),
                                  [(n, (lambda e: lambda W: {0: e(W)[0], 1: e(W)[1]})(e),
                                    (lambda A=A: lambda W, env: ("val", bool((env[0].v >> env[1].v) & 1)) if env[1].v < W.bits(A) else ("normal",))())
                                   for n, e, _ in sreps[::2]])
                out += core.g_row(K, PROP, inh(A, "power_of_two"),
                                  [(n, (lambda f: lambda W: {0: f(W)[1]})(e), (lambda A=A: lambda W, env: ("val", W.wrap(A, 1 << env[0].v)) if env[0].v < W.bits(A) else ("normal",))())
                                   for n, e, _ in arith.reps(A, "Ts", None)[:10]])
    return out


def extra_pow2(A, exp):
    return [("topp1", lambda W: {0: W.wrap(A, (1 << (W.bits(A) - 1)) + 1)}, exp),
            ("3", lambda W: {0: W.wrap(A, 3)}, exp), ("halfp1", lambda W: {0: W.wrap(A, (1 << (W.bits(A) // 2)) + 1)}, exp)]

"""C15 - byte slices and endianness helpers.

Decided (host is little-endian): G - from_le / to_le are the identity, from_be / to_be reverse the byte order of the
pattern (signed forms act on the bit pattern), on pattern representatives; with the nightly feature (thorough tier)
to_ne_bytes == to_le_bytes and from_ne_bytes == from_le_bytes and the signed *_bytes forms delegate to the unsigned
ones on the same pattern (F); T - from_be_slice / from_le_slice never decide `None` from the length of the slice alone
(a slice of any length is accepted when its excess bytes are padding).
Not decided: from_be_slice / from_le_slice decoding (length-dependent loops: whole digits, partial digit, excess
digits, sign digit), the *_bytes conversions themselves, big-endian targets (not compiled here).
"""
from .common import *
from . import arith
from analysis import core, build

PROP = "C15"
INFO = dict(
    explanation="Clause decided: the endianness helpers reverse the byte order exactly when the (little-endian) host differs from the named order; signed forms act on the pattern; ne == le on this target.",
    not_decided="slice decoding loops and their accept/reject conditions; byte-array conversions; cfg(target_endian = \"big\") arms",
    assumptions=["only the little-endian host target is analysed"],
)


def swap(W, A, v):
    w = W.bits(A)
    return int.from_bytes((v & ((1 << w) - 1)).to_bytes(w // 8, "little"), "big")


def obligations(ctx, tier):
    out = []
    configs = ["Kd", "Kr", "Kdn"] if tier == "quick" else ["Kd", "Kr", "Kdn", "Krn"]
    for cfg in configs:
        try:
            K = ctx.k(cfg)
        except build.BuildFailed as e:
            if cfg not in ("Kdn", "Krn"):
                raise
            # the nightly-feature configuration is optional: a tree that does not build with it leaves these rows undecided
            for A in ADTS:
                for fid in nightly_fids(A):
                    out.append(core.Ob("%s:F:%s:%s" % (PROP, cfg, fid), PROP, "F", cfg, fid, core.UNDECIDED,
                                       "configuration %s (feature `nightly`) does not build on this tree: %s" % (cfg, str(e)[:160])))
            continue
        for A in ADTS:
            if cfg == "Kdn" and tier == "quick":
                # quick tier: only the rows that exist with the nightly feature alone (the *_bytes family)
                out += nightly_rows(K, A)
                continue
            for m in ("from_le", "to_le"):
                out += core.g_row(K, PROP, inh(A, m), arith.reps(A, "T", (lambda A=A: lambda W, env: ("val", W.wrap(A, env[0].v)))()))
            for m in ("from_be", "to_be"):
                out += core.g_row(K, PROP, inh(A, m), arith.reps(A, "T", (lambda A=A: lambda W, env: ("val", W.wrap(A, swap(W, A, env[0].v))))()))
            from analysis import audit
            for m in ("from_le", "to_le", "from_be", "to_be", "from_be_slice", "from_le_slice"):
                out += core.p_minus(K, PROP, inh(A, m), set(), audit.default())
            from .c10 import B_
            for m in ("from_be_slice", "from_le_slice"):
                out += core.g_row(K, PROP, inh(A, m), [("empty", lambda W: {0: B_([])}, (lambda A=A: lambda W, env: ("some", W.wrap(A, 0)))())])
                # padding bytes of any number are accepted: no `None` may be decided from the length of the slice alone
                out.append(core.t_row(K, PROP, inh(A, m)))
            if cfg in ("Kdn", "Krn"):
                out += nightly_rows(K, A)
    return out


def nightly_fids(A):
    fids = [inh(A, "to_ne_bytes"), inh(A, "from_ne_bytes")]
    if is_signed(A):
        fids += [inh(A, m) for m in ("to_be_bytes", "to_le_bytes", "from_be_bytes", "from_le_bytes")]
    return fids


def nightly_rows(K, A):
    out = []
    U = A if not is_signed(A) else TWIN[A]
    out.append(core.f_row(K, PROP, inh(A, "to_ne_bytes"), call(inh(A, "to_le_bytes"), P(0))))
    out.append(core.f_row(K, PROP, inh(A, "from_ne_bytes"), call(inh(A, "from_le_bytes"), P(0))))
    if is_signed(A):
        for m in ("to_be_bytes", "to_le_bytes"):
            out.append(core.f_row(K, PROP, inh(A, m), call(inh(U, m), field(P(0), "bits"))))
        for m in ("from_be_bytes", "from_le_bytes"):
            out.append(core.f_row(K, PROP, inh(A, m), from_bits(A, call(inh(U, m), P(0)))))
    return out

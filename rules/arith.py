"""Reference semantics of the primitive-integer API (from the Rust std documentation) and the generic
"every overflow mode of one operation on representatives" G-row generator used by C01, C02, C05, C06, C08.

For an operation with exact result r on a type with range [lo, hi] the documented forms are

    overflowing_x -> (wrap(r), r not in range)        checked_x  -> Some(r) / None
    wrapping_x    -> wrap(r)                          saturating_x -> clamp(r)
    strict_x      -> r or panic                        x -> strict_x with debug assertions, wrapping_x without

The rows evaluate the guard trees extracted from MIR on representative operands, trusting the documented
meaning of the loop terminals (analysis/guards.py ARITH_METHODS); nothing from bnum is executed.
"""
from analysis import core
from analysis.facts import ADTS, SIGNED, UNSIGNED, TWIN, is_signed
from analysis.guards import BN, PI
from .common import inh, env_of


def rng(W, A):
    w = W.bits(A)
    return (-(1 << (w - 1)), (1 << (w - 1)) - 1) if A in SIGNED else (0, (1 << w) - 1)


THOROUGH = [False]      # set by ./check --tier thorough: a denser representative grid


def values(A):
    """named representative operands: boundaries, small values of both signs, a mid-width value"""
    base = _values(A)
    if not THOROUGH[0]:
        return base
    db = {"BUint": 64, "BInt": 64, "BUintD32": 32, "BIntD32": 32, "BUintD16": 16, "BIntD16": 16, "BUintD8": 8, "BIntD8": 8}[A]
    extra = [("3", lambda W: 3), ("10", lambda W: 10), ("100", lambda W: 100 if W.bits(A) > 8 else 99),
             ("dig", lambda W: (1 << db) % (rng(W, A)[1] + 1)), ("digm1", lambda W: ((1 << db) - 1) % (rng(W, A)[1] + 1)),
             ("digp1", lambda W: ((1 << db) + 1) % (rng(W, A)[1] + 1)), ("third", lambda W: rng(W, A)[1] // 3),
             ("halfmax", lambda W: rng(W, A)[1] // 2), ("halfmaxp1", lambda W: rng(W, A)[1] // 2 + 1),
             ("alt", lambda W: int("5" * (W.bits(A) // 4), 16) % (rng(W, A)[1] + 1))]
    if A in SIGNED:
        extra += [("n3", lambda W: -3), ("n100", lambda W: -100 if W.bits(A) > 8 else -99), ("ndig", lambda W: -((1 << db) % (rng(W, A)[1] + 1))),
                  ("halfmin", lambda W: rng(W, A)[0] // 2), ("nthird", lambda W: -(rng(W, A)[1] // 3)), ("MINp2", lambda W: rng(W, A)[0] + 2)]
    return base + extra


def _values(A):
    if A in SIGNED:
        return [("MIN", lambda W: rng(W, A)[0]), ("MINp1", lambda W: rng(W, A)[0] + 1), ("n7", lambda W: -7),
                ("n2", lambda W: -2), ("n1", lambda W: -1), ("0", lambda W: 0), ("1", lambda W: 1), ("2", lambda W: 2),
                ("5", lambda W: 5), ("half", lambda W: 1 << (W.bits(A) // 2)), ("nhalf", lambda W: -(1 << (W.bits(A) // 2))),
                ("MAXm1", lambda W: rng(W, A)[1] - 1), ("MAX", lambda W: rng(W, A)[1]),
                ("top2", lambda W: 1 << (W.bits(A) - 2)),
                # machine-word boundaries: where a "fits in one primitive word" shortcut changes behaviour in a wide type
                ("w64m1", lambda W: min((1 << 64) - 1, rng(W, A)[1])), ("w64", lambda W: min(1 << 64, rng(W, A)[1] - 2))]
    return [("0", lambda W: 0), ("1", lambda W: 1), ("2", lambda W: 2), ("5", lambda W: 5),
            ("half", lambda W: 1 << (W.bits(A) // 2)), ("halfm1", lambda W: (1 << (W.bits(A) // 2)) - 1),
            ("top", lambda W: 1 << (W.bits(A) - 1)), ("topm1", lambda W: (1 << (W.bits(A) - 1)) - 1),
            ("MAXm1", lambda W: rng(W, A)[1] - 1), ("MAX", lambda W: rng(W, A)[1]),
            ("w64m1", lambda W: min((1 << 64) - 1, rng(W, A)[1] - 3)), ("w64", lambda W: min(1 << 64, rng(W, A)[1] - 2))]


SMALL = [False]         # rules that re-check a forwarding impl use a small boundary grid


def small_values(A):
    names = ("MIN", "MINp1", "n2", "n1", "0", "1", "2", "MAXm1", "MAX", "half") if A in SIGNED else ("0", "1", "2", "half", "MAXm1", "MAX")
    d = dict(_values(A))
    return [(n, d[n]) for n in names]


def small_reps(A, kinds, expect_fn):
    """reps() over the small boundary grid (value operands only)"""
    old = SMALL[0]
    SMALL[0] = True
    try:
        return reps(A, kinds, expect_fn)
    finally:
        SMALL[0] = old


def amounts(A):
    return [("0", lambda W: 0), ("1", lambda W: 1), ("7", lambda W: 7), ("8", lambda W: 8), ("Bm1", lambda W: W.bits(A) - 1),
            ("B", lambda W: W.bits(A)), ("Bp1", lambda W: W.bits(A) + 1), ("Bp8", lambda W: W.bits(A) + 8),
            ("2Bm1", lambda W: 2 * W.bits(A) - 1), ("u32max", lambda W: (1 << 32) - 1)]


def exps():
    return [("0", lambda W: 0), ("1", lambda W: 1), ("2", lambda W: 2), ("3", lambda W: 3), ("5", lambda W: 5),
            ("Bm1", lambda W: W.bits("BUintD8")), ("63", lambda W: 63), ("64", lambda W: 64), ("big", lambda W: 1000),
            ("odd_big", lambda W: 1001)]


class Op:
    """one arithmetic operation: name, parameter kinds, exact function, panic class"""

    def __init__(self, stem, kinds, exact, cls, owner="T", forms=None, ret="T"):
        self.stem, self.kinds, self.exact, self.cls, self.owner, self.forms, self.ret = stem, kinds, exact, cls, owner, forms, ret


FORMS = ("overflowing", "checked", "wrapping", "saturating", "strict", "plain")


def form_expect(form, A, exact_fn, cls, debug, retA=None):
    retA = retA or A

    def f(W, env):
        args = [env[i].v if isinstance(env[i], (BN, PI)) else env[i] for i in sorted(env)]
        r = exact_fn(W, *args)
        lo, hi = rng(W, retA)
        over = not (lo <= r <= hi)
        wr = W.wrap(retA, r)
        if form == "overflowing":
            return ("val", ("tuple", (wr, over)))
        if form == "checked":
            return ("none",) if over else ("some", wr)
        if form == "wrapping":
            return ("val", wr)
        if form == "saturating":
            return ("val", W.wrap(retA, min(max(r, lo), hi)))
        if form == "strict" or (form == "plain" and debug):
            return ("panic", cls) if over else ("val", wr)
        return ("val", wr)
    return f


def kind_values(A, kind):
    vals = small_values if SMALL[0] else values
    if kind == "T":
        return [(n, (lambda f: lambda W: W.wrap(A, f(W)))(f)) for n, f in vals(A)]
    if kind in ("U", "I"):
        B = TWIN[A]
        return [(n, (lambda f: lambda W: W.wrap(B, f(W)))(f)) for n, f in vals(B)]
    if kind == "s":
        return [(n, (lambda f: lambda W: PI("u32", f(W)))(f)) for n, f in amounts(A)]
    if kind == "e":
        return [(n, (lambda f: lambda W: PI("u32", f(W)))(f)) for n, f in exps()]
    if kind == "b":
        return [("f", lambda W: False), ("t", lambda W: True)]
    raise ValueError(kind)


def reps(A, kinds, expect_fn, limit=None):
    lists = [kind_values(A, k) for k in kinds]
    out = []

    def rec(i, names, fns):
        if i == len(lists):
            env = {j: fn for j, fn in enumerate(fns)}
            out.append(("_".join(names), (lambda e: lambda W: {j: f(W) for j, f in e.items()})(env), expect_fn))
            return
        for n, f in lists[i]:
            rec(i + 1, names + [n], fns + [f])
    rec(0, [], [])
    return out


def mode_rows(K, PROP, A, stem, kinds, exact_fn, cls, forms=FORMS, retA=None, names=None):
    """G rows for every documented form of one operation"""
    out = []
    for form in forms:
        if names and form in names:
            name = names[form]
        else:
            name = stem if form == "plain" else "%s_%s" % (form, stem)
        fid = inh(A, name)
        if K.F.lookup(fid) is None:
            out.append(core.missing(PROP, "G", K, fid))
            continue
        out += core.g_row(K, PROP, fid, reps(A, kinds, form_expect(form, A, exact_fn, cls, K.debug, retA)))
    return out


def unchecked_expect(A, exact_fn):
    """unchecked_x: the exact result whenever it is representable (overflow is undefined behaviour: unconstrained)"""
    def f(W, env):
        args = [env[i].v if isinstance(env[i], (BN, PI)) else env[i] for i in sorted(env)]
        r = exact_fn(W, *args)
        lo, hi = rng(W, A)
        return ("val", W.wrap(A, r)) if lo <= r <= hi else ("any",)
    return f

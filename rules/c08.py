"""C08 - powers and integer logarithms.

Decided (G): every pow form (overflowing, checked, wrapping, saturating, strict, unsuffixed in both build modes)
on base x exponent representatives, including a^0 = 1 (0^0 too), negative bases with odd / even exponents, the
base hitting exactly MIN, saturation side (MIN for negative base and odd exponent); the signed forms are built from
the unsigned square-and-multiply terminals, which are trusted by contract.  checked_ilog*/ilog* guards (self <= 0,
base < 2) and ilog2 = bits - 1.
Not decided: the square-and-multiply loops themselves, the recursive ilog scheme (iilog) beyond its guards.
"""
from .common import *
from . import arith
from analysis import core
from analysis.guards import PI

PROP = "C08"
INFO = dict(
    explanation="Clause decided: signed pow forms re-sign and range-check the unsigned magnitude power as documented; pow forms are the documented projections; "
                "logarithm guards and ilog2.",
    not_decided="unsigned square-and-multiply loops (overflowing_pow / checked_pow / wrapping_pow of BUint), iilog recursion",
)


def obligations(ctx, tier):
    out = []
    configs = ["Kd", "Kr"] if tier == "quick" else ["Kd", "Kr", "Kd0", "Kr0"]
    for cfg in configs:
        K = ctx.k(cfg)
        for A in ADTS:
            sg = is_signed(A)
            forms = arith.FORMS
            out += arith.mode_rows(K, PROP, A, "pow", "Te", lambda W, a, e: pw(a, e), "overflow(pow)", forms=forms)
            # logarithms
            lvals = [(n, f) for n, f in arith.values(A)]

            def lg2(W, env, A=A):
                x = env[0].v
                return ("none",) if x <= 0 else ("some", PI("u32", x.bit_length() - 1))
            out += core.g_row(K, PROP, inh(A, "checked_ilog2"), arith.reps(A, "T", lg2))

            def lg2p(W, env, A=A):
                x = env[0].v
                return ("panic", "log_nonpositive") if x <= 0 else ("val", PI("u32", x.bit_length() - 1))
            out += core.g_row(K, PROP, inh(A, "ilog2"), arith.reps(A, "T", lg2p))
            for m in ("checked_ilog10",):
                out += core.g_row(K, PROP, inh(A, m), arith.reps(A, "T", lambda W, env: ("none",) if env[0].v <= 0 else ("not", ("none",))))
            out += core.g_row(K, PROP, inh(A, "checked_ilog"),
                              arith.reps(A, "TT", lambda W, env: ("none",) if (env[0].v <= 0 or env[1].v < 2) else ("not", ("none",))))
            # ---- band representatives: |base|^k strictly between 2^(BITS-1) and 2^BITS (sign / range decision of the signed forms)
            for form in forms:
                name = "pow" if form == "plain" else form + "_pow"
                out += core.g_row(K, PROP, inh(A, name), band_reps(A, form, K.debug))
            # ---- exponents near u32::MAX (a shortcut that multiplies the exponent must not wrap)
            for form in forms:
                name = "pow" if form == "plain" else form + "_pow"
                out += core.g_row(K, PROP, inh(A, name), huge_exp_reps(A, form, K.debug))
            # ---- logarithm values on (self, base) pairs whose answer is decided before / without the iteration
            out += core.g_row(K, PROP, inh(A, "checked_ilog"), ilog_value_reps(A, "checked"))
            out += core.g_row(K, PROP, inh(A, "ilog"), ilog_value_reps(A, "plain"))
    return out


def pw(a, e):
    if e == 0:
        return 1
    if a in (0, 1):
        return a
    if a == -1:
        return -1 if e % 2 else 1
    return a ** e


def _iroot(x, k):
    lo, hi = 0, 1 << (x.bit_length() // k + 1)
    while lo < hi:
        mid = (lo + hi + 1) // 2
        if mid ** k <= x:
            lo = mid
        else:
            hi = mid - 1
    return lo


def band_reps(A, form, debug):
    out = []
    # powers of +-2 at the representability edge: (-2)^(BITS-1) = MIN exactly, 2^(BITS-1) and (+-2)^BITS do not fit (signed)
    for bn, b in (("2", 2), ("n2", -2)):
        if b < 0 and not is_signed(A):
            continue
        for en, ef in (("Bm2", lambda W: W.bits(A) - 2), ("Bm1", lambda W: W.bits(A) - 1), ("B", lambda W: W.bits(A))):
            out.append(("edge_%s_%s" % (bn, en), (lambda b=b, ef=ef: lambda W: {0: W.wrap(A, b), 1: PI("u32", ef(W))})(),
                        arith.form_expect(form, A, lambda W, a, e: pw(a, e), "overflow(pow)", debug)))
    for k in (3, 5, 2, 4):
        for sign in ((-1, 1) if is_signed(A) else (1,)):
            for which in ("top", "mid"):
                def env_fn(W, k=k, sign=sign, which=which):
                    w = W.bits(A)
                    # top: largest base with base^k < 2^w ; mid: smallest base with base^k > 2^(w-1)
                    b = _iroot((1 << w) - 1, k) if which == "top" else _iroot(1 << (w - 1), k) + 1
                    return {0: W.wrap(A, sign * b), 1: PI("u32", k)}
                out.append(("band_%s_k%d_%s" % (which, k, "neg" if sign < 0 else "pos"), env_fn,
                            arith.form_expect(form, A, lambda W, a, e: pw(a, e), "overflow(pow)", debug)))
    return out


def ilog_value_reps(A, form):
    from analysis.facts import DIGIT
    db = {"u8": 8, "u16": 16, "u32": 32, "u64": 64}[DIGIT[A]]
    bases = [("two", lambda W: 2), ("hd", lambda W: 1 << (db // 2)), ("hd1", lambda W: (1 << (db // 2)) + 1), ("q", lambda W: 1 << max(2, W.bits(A) // 4)),
             ("dm1", lambda W: (1 << db) - 1 if W.bits(A) > db else 3), ("three", lambda W: 3), ("ten", lambda W: 10)]
    selfs = [("MAX", lambda W, b: arith.rng(W, A)[1]), ("cube", lambda W, b: min(b ** 3, arith.rng(W, A)[1])), ("sq", lambda W, b: min(b * b, arith.rng(W, A)[1])),
             ("sqm1", lambda W, b: min(b * b - 1, arith.rng(W, A)[1])), ("eq", lambda W, b: min(b, arith.rng(W, A)[1])), ("lt", lambda W, b: b - 1)]

    def exp(W, env):
        x, b = env[0].v, env[1].v
        if x <= 0 or b < 2:
            return ("any",)
        r, p = 0, b
        while p <= x:
            r += 1
            p *= b
        return ("some", PI("u32", r)) if form == "checked" else ("val", PI("u32", r))
    out = []
    for bn, bf in bases:
        for sn, sf in selfs:
            out.append(("lv_%s_%s" % (sn, bn), (lambda bf=bf, sf=sf: lambda W: {0: W.wrap(A, sf(W, min(bf(W), arith.rng(W, A)[1]))), 1: W.wrap(A, min(bf(W), arith.rng(W, A)[1]))})(), exp))
    return out


def huge_exp_reps(A, form, debug):
    """base in {0, 1, -1, 2, 2^(w/2), 3, MAX, MIN} x exponent in {2^26, 2^31, 2^32 - 1}: the exact power is astronomically
    large, so the expectation is computed modularly"""
    bases = [("0", lambda W: 0), ("1", lambda W: 1), ("2", lambda W: 2), ("half", lambda W: 1 << (W.bits(A) // 2)), ("3", lambda W: 3),
             ("MAX", lambda W: arith.rng(W, A)[1])]
    if is_signed(A):
        bases += [("n1", lambda W: -1), ("n2", lambda W: -2), ("MIN", lambda W: arith.rng(W, A)[0])]

    def exp(W, env):
        a, e = env[0].v, env[1].v
        w = W.bits(A)
        lo, hi = arith.rng(W, A)
        over = abs(a) >= 2
        wr = W.wrap(A, pow(a, e, 1 << w))
        if form == "overflowing":
            return ("val", ("tuple", (wr, over)))
        if form == "checked":
            return ("none",) if over else ("some", wr)
        if form == "wrapping":
            return ("val", wr)
        if form == "saturating":
            if not over:
                return ("val", wr)
            return ("val", W.wrap(A, lo if (a < 0 and e % 2) else hi))
        if form == "strict" or (form == "plain" and debug):
            return ("panic", "overflow(pow)") if over else ("val", wr)
        return ("val", wr)
    out = []
    for bn, bf in bases:
        for en, e in (("2p26", 1 << 26), ("2p31", 1 << 31), ("u32max", (1 << 32) - 1), ("2p31p1", (1 << 31) + 1)):
            out.append(("huge_%s_%s" % (bn, en), (lambda bf=bf, e=e: lambda W: {0: W.wrap(A, bf(W)), 1: PI("u32", e)})(), exp))
    return out

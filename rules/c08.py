"""C08 - powers and integer logarithms.

Decided (G): every pow form (overflowing, checked, wrapping, saturating, strict, unsuffixed in both build modes)
on base x exponent representatives, including a^0 = 1 (0^0 too), negative bases with odd / even exponents, the
base hitting exactly MIN, saturation side (MIN for negative base and odd exponent); the signed forms are built from
the unsigned square-and-multiply terminals, which are trusted by contract.  checked_ilog*/ilog* guards (self <= 0,
base < 2) and ilog2 = bits - 1.
Not decided: the square-and-multiply loops themselves, the recursive ilog scheme (iilog) beyond its guards.
"""
from .common import *
from . import arith
from analysis import core
from analysis.guards import PI

PROP = "C08"
INFO = dict(
    explanation="Clause decided: signed pow forms re-sign and range-check the unsigned magnitude power as documented; pow forms are the documented projections; "
                "logarithm guards and ilog2.",
    not_decided="unsigned square-and-multiply loops (overflowing_pow / checked_pow / wrapping_pow of BUint), iilog recursion",
)


def obligations(ctx, tier):
    out = []
    configs = ["Kd", "Kr"] if tier == "quick" else ["Kd", "Kr", "Kd0", "Kr0"]
    for cfg in configs:
        K = ctx.k(cfg)
        for A in ADTS:
            sg = is_signed(A)
            forms = arith.FORMS
            out += arith.mode_rows(K, PROP, A, "pow", "Te", lambda W, a, e: pw(a, e), "overflow(pow)", forms=forms)
            # logarithms
            lvals = [(n, f) for n, f in arith.values(A)]

            def lg2(W, env, A=A):
                x = env[0].v
                return ("none",) if x <= 0 else ("some", PI("u32", x.bit_length() - 1))
            out += core.g_row(K, PROP, inh(A, "checked_ilog2"), arith.reps(A, "T", lg2))

            def lg2p(W, env, A=A):
                x = env[0].v
                return ("panic", "log_nonpositive") if x <= 0 else ("val", PI("u32", x.bit_length() - 1))
            out += core.g_row(K, PROP, inh(A, "ilog2"), arith.reps(A, "T", lg2p))
            for m in ("checked_ilog10",):
                out += core.g_row(K, PROP, inh(A, m), arith.reps(A, "T", lambda W, env: ("none",) if env[0].v <= 0 else ("not", ("none",))))
            out += core.g_row(K, PROP, inh(A, "checked_ilog"),
                              arith.reps(A, "TT", lambda W, env: ("none",) if (env[0].v <= 0 or env[1].v < 2) else ("not", ("none",))))
    return out


def pw(a, e):
    if e == 0:
        return 1
    if a in (0, 1):
        return a
    if a == -1:
        return -1 if e % 2 else 1
    return a ** e

"""C19 - num_traits numeric conversions.

Decided: F - AsPrimitive::as_ == CastFrom::cast_from (all impls), to_f32 / to_f64 == Some(cast);
G - ToPrimitive::to_uN for signed bnum (negative => None, else the unsigned export of the pattern),
FromPrimitive::from_i64 / from_i128 for unsigned bnum (negative => None), from_f32 / from_f64 on float
representatives (NaN / infinities / out of range => None; otherwise Some of the truncated value, including
values whose top bit lands on the target's top bit); P- - no API-contract panic class from
FromPrimitive / ToPrimitive (audited).  The unsigned import / export loops are trusted by contract.
Not decided: the unsigned digit loops, to_iN / from_iN for signed types (their own loops).
"""
import math

from .common import *
from . import arith, c09, c14
from analysis import core, audit
from analysis.guards import PI, BN, FL

PROP = "C19"
INFO = dict(
    explanation="Clause decided: AsPrimitive equals the As cast; sign guards of the mixed-sign To/FromPrimitive impls; from_f32/from_f64 range and truncation routing on float representatives; "
                "no API-contract panic reachable.",
    not_decided="unsigned digit import/export loops; signed to_iN / from_iN loops",
    assumptions=["P- rows are a may-analysis restricted to API-contract panic classes"],
)
UP = {"u8": 8, "u16": 16, "u32": 32, "u64": 64, "u128": 128, "usize": 64}


def obligations(ctx, tier):
    out = []
    aud = audit.default()
    for cfg in (["Kd", "Kr"] if tier == "quick" else ["Kd", "Kr", "Kdn", "Krn"]):
        K = ctx.k(cfg)
        F = K.F
        TP, FP = "num_traits::ToPrimitive", "num_traits::FromPrimitive"
        for A in ADTS:
            sg = is_signed(A)
            T = T_(A)
            for ty in ("f32", "f64"):
                out.append(core.f_row(K, PROP, tr(A, TP, [], "to_" + ty), some(call("<%s as cast::CastFrom<%s>>::cast_from" % (ty, T), P(0)))))
                # the value itself: the nearest float (ties to even) of the integer, on the rounding representatives of C14
                def exf_(W, env, A=A, ty=ty):
                    v = env[0].v
                    bits = c14.round_to_float(abs(v), ty)
                    if v < 0:
                        bits |= 1 << (31 if ty == "f32" else 63)
                    return ("some", FL(ty, bits))
                repsf = []
                for j in range(110):
                    def envf_(W, j=j, A=A, ty=ty):
                        iv = c14.int_values(W, A, ty)
                        return {0: W.wrap(A, iv[j % len(iv)])}
                    repsf.append(("%s_int%d" % (ty, j), envf_, exf_))
                out += core.g_row(K, PROP, tr(A, TP, [], "to_" + ty), repsf)
            if sg:
                for ty, b in UP.items():
                    def ex(W, env, ty=ty, b=b):
                        v = env[0].v
                        return ("some", PI(ty, v)) if 0 <= v < (1 << b) else ("none",)
                    out += core.g_row(K, PROP, tr(A, TP, [], "to_" + ty), arith.reps(A, "T", ex))
            else:
                for ty in ("i64", "i128"):
                    def ex2(W, env, A=A):
                        v = env[0].v
                        if v < 0 or v >= (1 << W.bits(A)):
                            return ("none",)
                        return ("some", W.wrap(A, v))
                    out += core.g_row(K, PROP, tr(A, FP, [], "from_" + ty),
                                      [(n, (lambda v=v, ty=ty: lambda W: {0: PI(ty, v)})(), ex2) for n, v in c09.prim_reps(ty)])
            # ---- to_<prim> for every primitive, on the value grid of C13 (decided where the answer is reached before the digit loop)
            from . import c13
            for ty in PRIM_INTS:
                fid = tr(A, TP, [], "to_" + ty)
                if F.lookup(fid) is None:
                    continue
                b = c13.PB[ty]
                lo, hi = (-(1 << (b - 1)), (1 << (b - 1)) - 1) if ty[0] == "i" else (0, (1 << b) - 1)
                cands = [0, 1, 5, hi, hi - 1, hi + 1, (hi + 1) // 2, (hi + 1) // 2 - 1, 2 * (hi + 1) - 1, 200, 255, 256, 1 << 40]
                if sg:
                    cands += [-1, -5, lo, lo + 1, lo - 1, -(1 << 40), -200]

                def ext(W, env, lo=lo, hi=hi, ty=ty):
                    v = env[0].v
                    return ("some", PI(ty, v)) if lo <= v <= hi else ("none",)
                repst = []
                for v in cands:
                    def env_t(W, v=v, A=A):
                        alo, ahi = arith.rng(W, A)
                        return {0: W.wrap(A, min(max(v, alo), ahi))}
                    repst.append(("g%s" % str(v).replace("-", "n"), env_t, ext))
                out += core.g_row(K, PROP, fid, repst)
            # ---- from_<prim> for every primitive: Some exactly when the value is representable
            for ty in PRIM_INTS:
                fid = tr(A, FP, [], "from_" + ty)
                if F.lookup(fid) is None:
                    continue

                def exfp(W, env, A=A):
                    v = env[0].v
                    alo, ahi = arith.rng(W, A)
                    return ("some", W.wrap(A, v)) if alo <= v <= ahi else ("none",)
                b = c13.PB[ty]
                extra = [("w%d" % k, v) for k, v in enumerate([127, 128, 255, 256, 32767, 32768, 65535, 65536, (1 << 31) - 1, 1 << 31, (1 << 32) - 1, 1 << 32,
                                                                (1 << 63) - 1, 1 << 63, (1 << 64) - 1, 1 << 64, (1 << 127) - 1, 1 << 127, -128, -129, -32768, -32769,
                                                                -(1 << 31), -(1 << 31) - 1, -(1 << 63), -(1 << 63) - 1])
                         if ((-(1 << (b - 1)) <= v <= (1 << (b - 1)) - 1) if ty[0] == "i" else (0 <= v <= (1 << b) - 1))]
                out += core.g_row(K, PROP, fid, [("p" + n, (lambda v=v, ty=ty: lambda W: {0: PI(ty, v)})(), exfp) for n, v in c09.prim_reps(ty) + extra])
            # from_f32 / from_f64
            for ty, base in (("f32", c14.F32), ("f64", c14.F64)):
                def exf(W, env, A=A):
                    f = env[0]
                    lo, hi = arith.rng(W, A)
                    if f.is_nan() or f.is_inf():
                        return ("none",)
                    t = int(f.magnitude())
                    if f.sign:
                        t = -t
                    if f.sign and A in UNSIGNED and f.magnitude() != 0:
                        return ("any",) if t == 0 else ("none",)
                    return ("some", W.wrap(A, t)) if lo <= t <= hi else ("none",)
                reps = [("%s_%r" % (ty, x), (lambda x=x, ty=ty: lambda W: {0: FL.of(ty, x)})(), exf) for x in base]
                for j in range(24):
                    def env_fn(W, j=j, A=A, ty=ty):
                        lo, hi = arith.rng(W, A)
                        w = W.bits(A)
                        cands = [float(hi), float(hi) + 1.0 if hi < 2 ** 120 else float(hi), float((hi + 1) // 2), float((hi + 1) // 2 + (hi + 1) // 4),
                                 float(hi // 3 * 2), math.nextafter(float(hi + 1), 0.0), float(hi + 1), float(2 * (hi + 1))]
                        cands = [c for c in cands if ty == "f64" or abs(c) <= 3.4028234e38] or [1.0]
                        c = cands[j % len(cands)]
                        if j >= 12 and A in SIGNED:
                            c = -c
                        if ty == "f32":
                            import struct
                            c = struct.unpack("<f", struct.pack("<f", c))[0]
                        return {0: FL.of(ty, c)}
                    reps.append(("%s_edge%d" % (ty, j), env_fn, exf))
                out += core.g_row(K, PROP, tr(A, FP, [], "from_" + ty), reps)
        for fid, di in sorted(F.by_fid.items()):
            d = F.defs[di]
            if d.get("trait") not in (TP, FP) or di not in F.bodies or d["kind"] != "AssocFn":
                continue
            out += core.p_minus(K, PROP, fid, set(), aud)
            out.append(core.t_row(K, PROP, fid, source_locals=(), content_locals=(1,), any_err=True))    # no value-independent None
        # AsPrimitive == CastFrom (shared with C09)
        for o in c09.obligations_as_primitive(K, PROP):
            out.append(o)
    return out

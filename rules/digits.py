"""Rows for the digit-level primitives of src/digit.rs (wrappers over primitive integer operations, fully decidable on
representatives).  They are crate-internal helpers, hence *soft anchors*: if one is renamed or inlined away the rows
answer UNDECIDED, never a violation."""
from analysis import core
from analysis.guards import PI

DIG = {"u8": ("i8", 8), "u16": ("i16", 16), "u32": ("i32", 32), "u64": ("i64", 64)}


def _thorough():
    from . import arith
    return arith.THOROUGH[0]


def uvals(b):
    if b == 8 and _thorough():
        return list(range(256))          # exhaustive for the u8 digit primitives
    return [0, 1, 2, (1 << b) - 1, (1 << b) - 2, 1 << (b - 1), (1 << (b - 1)) - 1, 0x5A & ((1 << b) - 1), 3]


def svals(b):
    if b == 8 and _thorough():
        return list(range(-128, 128))
    return [0, 1, -1, -2, 2, (1 << (b - 1)) - 1, (1 << (b - 1)) - 2, -(1 << (b - 1)), -(1 << (b - 1)) + 1, 1 << (b - 2), -(1 << (b - 2))]


def soft(K, PROP, fid, reps):
    if K.F.lookup(fid) is None:
        return [core.Ob("%s:G:%s:%s:%s" % (PROP, K.config, fid, n), PROP, "G", K.config, fid, core.UNDECIDED,
                        "internal digit helper not present as a separate function") for n, _e, _x in reps]
    return core.g_row(K, PROP, fid, reps)


def add_sub_rows(K, PROP):
    out = []
    for d, (sd, b) in DIG.items():
        m = (1 << b) - 1
        for name, f in (("carrying_add", lambda a, b_, c: a + b_ + c), ("borrowing_sub", lambda a, b_, c: a - b_ - c)):
            reps = []
            for a in uvals(b):
                for b2 in uvals(b):
                    for c in (False, True):
                        def exp(W, env, f=f, d=d, b=b, m=m):
                            r = f(env[0].v, env[1].v, int(env[2]))
                            return ("val", ("tuple", (PI(d, r & m), not (0 <= r <= m))))
                        reps.append(("%d_%d_%s" % (a, b2, "t" if c else "f"), (lambda a=a, b2=b2, c=c, d=d: lambda W: {0: PI(d, a), 1: PI(d, b2), 2: c})(), exp))
            out += soft(K, PROP, "digit::%s::%s" % (d, name), reps)
        lo, hi = -(1 << (b - 1)), (1 << (b - 1)) - 1
        for name, f in (("carrying_add_signed", lambda a, b_, c: a + b_ + c), ("borrowing_sub_signed", lambda a, b_, c: a - b_ - c)):
            reps = []
            for a in svals(b):
                for b2 in svals(b):
                    for c in (False, True):
                        def exp(W, env, f=f, sd=sd, b=b, lo=lo, hi=hi):
                            r = f(env[0].v, env[1].v, int(env[2]))
                            w = ((r + (1 << (b - 1))) % (1 << b)) - (1 << (b - 1))
                            return ("val", ("tuple", (PI(sd, w), not (lo <= r <= hi))))
                        reps.append(("%s_%s_%s" % (str(a).replace("-", "n"), str(b2).replace("-", "n"), "t" if c else "f"),
                                     (lambda a=a, b2=b2, c=c, sd=sd: lambda W: {0: PI(sd, a), 1: PI(sd, b2), 2: c})(), exp))
            out += soft(K, PROP, "digit::%s::%s" % (d, name), reps)
    return out


def mul_rows(K, PROP):
    out = []
    for d, (sd, b) in DIG.items():
        m = (1 << b) - 1
        reps = []
        vs = [0, 1, 2, m, m - 1, 1 << (b - 1), 3]
        for a in vs:
            for b2 in vs:
                for c in (0, 1, m):
                    for cur in (0, m):
                        def exp(W, env, d=d, b=b, m=m):
                            r = env[0].v * env[1].v + env[2].v + env[3].v
                            return ("val", ("tuple", (PI(d, r & m), PI(d, r >> b))))
                        reps.append(("%d_%d_%d_%d" % (a, b2, c, cur), (lambda a=a, b2=b2, c=c, cur=cur, d=d: lambda W: {0: PI(d, a), 1: PI(d, b2), 2: PI(d, c), 3: PI(d, cur)})(), exp))
        out += soft(K, PROP, "digit::%s::carrying_mul" % d, reps)
        reps = []
        for a in vs:
            for b2 in vs:
                def exp2(W, env, d=d, b=b, m=m):
                    r = env[0].v * env[1].v
                    return ("val", ("tuple", (PI(d, r & m), PI(d, r >> b))))
                reps.append(("%d_%d" % (a, b2), (lambda a=a, b2=b2, d=d: lambda W: {0: PI(d, a), 1: PI(d, b2)})(), exp2))
        out += soft(K, PROP, "digit::%s::widening_mul" % d, reps)
    return out


def div_rows(K, PROP):
    out = []
    for d, (sd, b) in DIG.items():
        m = (1 << b) - 1
        reps = []
        for rhs in (1, 2, 3, m, 1 << (b - 1), m - 1):
            for high in (0, 1, rhs - 1, rhs // 2):
                if not (0 <= high < rhs):
                    continue
                for low in (0, 1, m, 1 << (b - 1)):
                    def exp(W, env, d=d, b=b, m=m):
                        a = (env[1].v << b) | env[0].v
                        return ("val", ("tuple", (PI(d, (a // env[2].v) & m), PI(d, a % env[2].v))))
                    reps.append(("%d_%d_%d" % (low, high, rhs), (lambda low=low, high=high, rhs=rhs, d=d: lambda W: {0: PI(d, low), 1: PI(d, high), 2: PI(d, rhs)})(), exp))
        out += soft(K, PROP, "digit::%s::div_rem_wide" % d, reps)
    return out

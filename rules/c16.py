"""C16 - digit-type independence; constants.

Decided: W (level proof on a stated grid) - a witness crate is type-checked against /repo: rustc's constant
evaluator decides BITS = N x digit bits, BYTES = BITS/8, MIN, MAX, ZERO, ONE..TEN, NEG_ONE..NEG_TEN (as digit arrays)
for every digit type x N in {1,2,3,4,5,8,16,32,64,128} x {unsigned, signed}, and that the 14 aliases U128..I8192 have the
named widths and are the u64-digit types; trait-bound witnesses for the cast matrix (8x8 bnum pairs, 14 primitives both
ways) and the operator impl matrix (Output types, reference / assign forms).
G - the same representative rows as C01/C02/C03/C05/C08 evaluated at *equal widths* across the four digit types
(64 and 192 bits: N = 8/4/2/1 and 24/12/6/3): every digit type routes the same operands to the same outcome.
Not decided: agreement of the digit-loop terminals across digit types; extension to a wider type commuting with
operations (needs two independent widths); parsing / printing.
"""
import json
import os
import re
import subprocess

from .common import *
from . import arith, c01, c02, c03, c05, c08
from analysis import core, build

PROP = "C16"
INFO = dict(
    level="proof",
    explanation="Clause decided: associated constants and aliases on the stated grid (const-evaluated by rustc during type checking, exhaustive on the grid); "
                "impl matrices exist; wrapper routing is identical across digit types at equal widths on representatives.",
    not_decided="cross-digit agreement of the loop terminals; commuting with extension to a wider type; parse/print",
)
VERIF = os.path.dirname(os.path.dirname(os.path.abspath(__file__)))
DB = {"BUint": 64, "BInt": 64, "BUintD32": 32, "BIntD32": 32, "BUintD16": 16, "BIntD16": 16, "BUintD8": 8, "BIntD8": 8}


def witness_obligations(repo):
    wdir = os.path.join(VERIF, "witness") if not repo else os.path.join(build.CACHE, "witness")
    env = dict(os.environ, CARGO_NET_OFFLINE="true", VERIF_REPO=repo or build.REPO, VERIF_WITNESS_DIR=wdir)
    subprocess.run(["python3", os.path.join(VERIF, "tools", "gen_witness.py")], env=env, check=True, stdout=subprocess.DEVNULL)
    lock = os.path.join(repo or build.REPO, "Cargo.lock")
    if os.path.exists(lock):
        import shutil
        shutil.copy(lock, os.path.join(wdir, "Cargo.lock"))
    env["CARGO_TARGET_DIR"] = os.path.join(build.CACHE, "witness-target")
    env.pop("RUSTFLAGS", None)
    r = subprocess.run(["cargo", "check", "--offline", "--message-format", "short"], cwd=wdir, env=env,
                       stdout=subprocess.PIPE, stderr=subprocess.STDOUT, text=True)
    meta = json.load(open(os.path.join(wdir, "obligations.json")))
    total = meta["const_assertions"] + meta["trait_bounds"]
    errs = [l for l in r.stdout.splitlines() if re.match(r"^src/lib\.rs:\d+:\d+: error", l)]
    bnum_errs = [l for l in r.stdout.splitlines() if re.search(r"^\S*src/\S+\.rs:\d+:\d+: error", l) and not l.startswith("src/lib.rs")]
    out = []
    if r.returncode != 0 and not errs:
        if bnum_errs or "could not compile `bnum`" in r.stdout:
            raise build.BuildFailed("bnum itself does not compile for the witness crate:\n" + "\n".join(bnum_errs[:5]))
        out.append(core.Ob("C16:W:witness:build", PROP, "W", "stable", "witness", core.VIOLATED,
                           "witness crate failed to build: " + r.stdout[-600:]))
        return out, total
    failed = 0
    for l in errs:
        m = re.match(r"^src/lib\.rs:(\d+):\d+: error(\[E\d+\])?: (.*)$", l)
        msg = m.group(3) if m else l
        what = re.sub(r": evaluation of .*$", "", msg.replace("evaluation panicked: ", ""))
        key = "C16:W:witness:" + re.sub(r"[^A-Za-z0-9_<>:=+\-]+", "_", what)[:120]
        out.append(core.Ob(key, PROP, "W", "stable", "witness", core.VIOLATED, "witness does not type-check: " + msg, "witness/src/lib.rs:%s" % (m.group(1) if m else "?")))
        failed += 1
    n_ok = total - failed
    out.append(core.Ob("C16:W:witness:const-assertions", PROP, "W", "stable", "witness", core.PROVED if not failed else core.UNDECIDED,
                       "%d const assertions and %d trait-bound witnesses type-check (%d failed)" % (meta["const_assertions"], meta["trait_bounds"], failed),
                       extra=dict(grid=meta["grid"], obligations_in_witness=total, discharged_in_witness=n_ok)))
    return out, total


def obligations(ctx, tier):
    out, total = witness_obligations(ctx.repo)
    INFO["witness_total"] = total
    # equal-width worlds: 64 and 192 bits for every digit type
    def worlds_for(fid):
        m = re.search(r"(BUintD32|BUintD16|BUintD8|BUint|BIntD32|BIntD16|BIntD8|BInt)<N>", fid)
        db = DB[m.group(1)] if m else 64
        return (64 // db, 192 // db)
    core.WORLDS_FOR = worlds_for
    try:
        for cfg in (["Kd", "Kr"] if tier == "quick" else ["Kd", "Kr", "Kd0", "Kr0"]):
            K = ctx.k(cfg)
            for A in ADTS:
                rows = []
                rows += arith.mode_rows(K, PROP, A, "add", "TT", lambda W, a, b: a + b, "overflow(add)", forms=("checked", "wrapping", "saturating"))
                rows += arith.mode_rows(K, PROP, A, "sub", "TT", lambda W, a, b: a - b, "overflow(sub)", forms=("checked", "saturating"))
                rows += arith.mode_rows(K, PROP, A, "mul", "TT", lambda W, a, b: a * b, "overflow(mul)", forms=("checked", "saturating"))
                rows += arith.mode_rows(K, PROP, A, "pow", "Te", lambda W, a, e: a ** e, "overflow(pow)", forms=("checked",))
                for op in ("div", "rem"):
                    rows += core.g_row(K, PROP, inh(A, "checked_" + op), c03.reps_for(A, "checked", op))
                rows += core.g_row(K, PROP, inh(A, "checked_shl"), arith.reps(A, "Ts", c05.shift_expect(A, "shl", "checked", "overflow(shl)", K.debug)))
                rows += core.g_row(K, PROP, inh(A, "rotate_left"), arith.reps(A, "Ts", c05.rot_expect(A, "rotate_left")))
                for m, fn in (("lt", lambda a, b: a < b), ("ge", lambda a, b: a >= b)):
                    rows += core.g_row(K, PROP, inh(A, m), arith.reps(A, "TT", (lambda fn: lambda W, env: ("val", fn(env[0].v, env[1].v)))(fn)))
                for o in rows:
                    o.key = o.key + ":eqwidth"
                out += rows
    finally:
        core.WORLDS_FOR = None
    return out

"""Shared helpers for the per-property rule modules."""
from analysis.facts import ADTS, UNSIGNED, SIGNED, DIGIT, TWIN, PRIM_INTS, is_signed
from analysis.spec import *  # noqa: F401,F403  (spec term constructors)
from analysis import core

OPS = "core::ops::"


def T_(adt):
    return adt + "<N>"


def inh(adt, name):
    return "%s<N>::%s" % (adt, name)


def tr(adt, trait, targs, name, self_ref=False):
    """canonical id of a trait-impl method: <[&]ADT<N> as trait<targs>>::name"""
    s = ("&" if self_ref else "") + adt + "<N>"
    ta = "<" + ", ".join(targs) + ">" if targs else ""
    return "<%s as %s%s>::%s" % (s, trait, ta, name)


LOSSLESS_TO_U32 = {"u8", "u16", "u32"}

from analysis.guards import BN, PI, OPAQUE  # noqa: E402


def C(adt, name):
    """representative: a named constant of the ADT"""
    return lambda W: W.const(adt, name)


def V(adt, v):
    return lambda W: W.wrap(adt, v)


def env_of(**kw):
    """env_of(p0=fn, p1=fn) -> env_fn(W)"""
    def f(W):
        return {int(k[1:]): (v(W) if callable(v) else v) for k, v in kw.items()}
    return f


def expect(e):
    return lambda W, env: e

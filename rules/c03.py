"""C03 - division and remainder.

Decided (G, interprocedural guard walk on representatives, with the documented meaning of the loop
terminals trusted): zero-divisor routing, the signed MIN / -1 table, MIN / 1, and the sign / euclid / floor /
ceil adjustment logic wrapped around the unsigned quotient-remainder primitive.  P+: the panic classes are
reachable from the operators in both build modes.  F (unsigned): euclid / floor forms coincide with the
truncating ones.  Not decided: the quotient / remainder digits themselves (short division, Knuth D).
"""
from .common import *
from analysis import core

PROP = "C03"
INFO = dict(
    explanation="Clause decided: for representatives of every sign combination plus zero divisor, MIN/-1, MIN/1, MAX/-1, "
                "each division form routes to the documented outcome (panic class, None, (value, flag), saturation bound, adjusted quotient) "
                "given that the unsigned div_rem primitive and overflowing_add/sub/neg meet their contract.",
    not_decided="quotient and remainder digits (short division, Knuth algorithm D and its correction steps)",
)


def tdiv(a, b):
    q = abs(a) // abs(b)
    return q if (a >= 0) == (b >= 0) else -q


def trem(a, b):
    return a - tdiv(a, b) * b


def erem(a, b):
    return a % abs(b)


def ediv(a, b):
    return (a - erem(a, b)) // b


def fdiv(a, b):
    return a // b


def cdiv(a, b):
    return -((-a) // b)


def nmo(a, b):
    r = a % b       # python: sign of b
    return a if r == 0 else a + (b - r)


VALUE = {"div": tdiv, "rem": trem, "div_euclid": ediv, "rem_euclid": erem, "div_floor": fdiv, "div_ceil": cdiv,
         "next_multiple_of": nmo}
OVERFLOW_VALUE = {"div": "MIN", "div_euclid": "MIN", "rem": "ZERO", "rem_euclid": "ZERO"}
OVERFLOW_PANIC = {"div": "div_overflow", "div_euclid": "div_overflow", "rem": "rem_overflow", "rem_euclid": "rem_overflow",
                  "div_floor": "div_overflow", "div_ceil": "div_overflow"}


def pairs(A):
    if is_signed(A):
        return [("7_2", 7, 2), ("n7_2", -7, 2), ("7_n2", 7, -2), ("n7_n2", -7, -2), ("6_3", 6, 3), ("n6_3", -6, 3),
                ("6_n3", 6, -3), ("0_5", 0, 5), ("2_7", 2, 7), ("n2_7", -2, 7), ("MIN_1", "MIN", 1), ("MIN_n1", "MIN", -1),
                ("MIN_2", "MIN", 2), ("MAX_n1", "MAX", -1), ("MAX_1", "MAX", 1), ("7_0", 7, 0), ("MIN_0", "MIN", 0),
                ("MIN_MIN", "MIN", "MIN"), ("5_MIN", 5, "MIN"), ("n1_MIN", -1, "MIN"), ("0_0", 0, 0), ("MIN_n2", "MIN", -2),
                ("MIN_n3", "MIN", -3), ("MAX_MIN", "MAX", "MIN"), ("0_n5", 0, -5),
                ("MAXm1_3", ("MAX", -1), 3), ("MAXm1_4", ("MAX", -1), 4), ("MINp1_n3", ("MIN", 1), -3), ("MAXm2_MAX", ("MAX", -2), "MAX"),
                ("MIN_3", "MIN", 3), ("MIN_7", "MIN", 7), ("MINp1_4", ("MIN", 1), 4), ("MINp2_5", ("MIN", 2), 5), ("n1_2", -1, 2), ("7_n10", 7, -10)]
    return [("7_2", 7, 2), ("6_3", 6, 3), ("0_5", 0, 5), ("2_7", 2, 7), ("MAX_1", "MAX", 1), ("MAX_MAX", "MAX", "MAX"),
            ("MAX_2", "MAX", 2), ("7_0", 7, 0), ("0_0", 0, 0), ("MAXm1_3", ("MAX", -1), 3), ("MAXm1_4", ("MAX", -1), 4),
            ("MAXm2_MAX", ("MAX", -2), "MAX"), ("MAXm1_MAX", ("MAX", -1), "MAX")]


def val(A, x):
    if isinstance(x, tuple):
        return lambda W: W.wrap(A, W.const(A, x[0]).v + x[1])
    return C(A, x) if isinstance(x, str) else V(A, x)


def expectation(A, form, op):
    """expected outcome of `form`_`op` on (p0, p1), from the Rust reference semantics of the primitive integers"""
    def f(W, env):
        a, b = env[0].v, env[1].v
        lo = W.const(A, "MIN").v
        hi = W.const(A, "MAX").v
        if b == 0:
            if form == "checked":
                return ("none",)
            return ("panic", "zero_divisor")
        exact = VALUE[op](a, b)
        overflow = not (lo <= exact <= hi)
        if op in ("rem", "rem_euclid") and a == lo and b == -1:
            overflow = True     # the primitive integers define MIN % -1 as an overflow
        if form == "checked":
            return ("none",) if overflow else ("some", W.wrap(A, exact))
        if form == "overflowing":
            if overflow and op in OVERFLOW_VALUE:
                return ("val", ("tuple", (W.const(A, OVERFLOW_VALUE[op]), True)))
            return ("val", ("tuple", (W.wrap(A, exact), False)))
        if form == "wrapping":
            return ("val", W.wrap(A, exact)) if not (overflow and op in ("rem", "rem_euclid")) else ("val", W.const(A, "ZERO"))
        if form == "saturating":
            return ("val", W.const(A, "MAX") if overflow else W.wrap(A, exact))
        # plain / strict / operators
        if overflow:
            if op == "next_multiple_of":
                return ("panic", "*") if W_debug[0] else ("val", W.wrap(A, exact))
            return ("panic", OVERFLOW_PANIC[op])
        return ("val", W.wrap(A, exact))
    return f


W_debug = [True]


def reps_for(A, form, op):
    # MIN / -1 through div_floor / div_ceil is outside the property ("excluding only signed MIN / -1") and is
    # not listed among the overflow outcomes it fixes, so no row constrains it
    skip = {"MIN_n1"} if op in ("div_floor", "div_ceil") else set()
    return [(n, env_of(p0=val(A, a), p1=val(A, b)), expectation(A, form, op)) for n, a, b in pairs(A) if n not in skip]


def div_rows(K, A, PROP=PROP):
    """G rows of the whole division family for one ADT (shared with C04's panic-side clauses)"""
    out = []
    T = T_(A)
    W_debug[0] = K.debug
    for op in ("div", "rem", "div_euclid", "rem_euclid"):
        out += core.g_row(K, PROP, inh(A, op), reps_for(A, "plain", op))
        out += core.g_row(K, PROP, inh(A, "strict_" + op), reps_for(A, "plain", op))
        out += core.g_row(K, PROP, inh(A, "checked_" + op), reps_for(A, "checked", op))
        out += core.g_row(K, PROP, inh(A, "overflowing_" + op), reps_for(A, "overflowing", op))
        out += core.g_row(K, PROP, inh(A, "wrapping_" + op), reps_for(A, "wrapping", op))
    out += core.g_row(K, PROP, inh(A, "saturating_div"), reps_for(A, "saturating", "div"))
    for op in ("div_floor", "div_ceil", "next_multiple_of"):
        out += core.g_row(K, PROP, inh(A, op), reps_for(A, "plain", op))
    out += core.g_row(K, PROP, inh(A, "checked_next_multiple_of"), reps_for(A, "checked", "next_multiple_of"))
    # operators
    out += core.g_row(K, PROP, tr(A, OPS + "Div", [T], "div"), reps_for(A, "plain", "div"))
    out += core.g_row(K, PROP, tr(A, OPS + "Rem", [T], "rem"), reps_for(A, "plain", "rem"))
    return out


def obligations(ctx, tier):
    out = []
    configs = ["Kd", "Kr"] if tier == "quick" else ["Kd", "Kr", "Kd0", "Kr0"]
    for cfg in configs:
        K = ctx.k(cfg)
        from . import digits
        out += digits.div_rows(K, PROP)
        W_debug[0] = K.debug
        for A in ADTS:
            T = T_(A)
            out += div_rows(K, A)
            from . import c18
            out += c18.trait_value_rows(K, A, PROP, stems={"div", "rem", "div_euclid", "rem_euclid"})   # num-traits entry points
            # P+: panic classes reachable in both build modes
            for fid in (tr(A, OPS + "Div", [T], "div"), tr(A, OPS + "Rem", [T], "rem"), inh(A, "div"), inh(A, "rem")):
                out.append(core.p_plus(K, PROP, fid, "zero_divisor"))
            if is_signed(A):
                out.append(core.p_plus(K, PROP, tr(A, OPS + "Div", [T], "div"), "div_overflow"))
                out.append(core.p_plus(K, PROP, tr(A, OPS + "Rem", [T], "rem"), "rem_overflow"))
            # F (unsigned): euclid/floor/strict forms have the same normal form as the truncating ones
            if not is_signed(A):
                out.append(core.f_row(K, PROP, inh(A, "div_euclid"), call(inh(A, "div"), P(0), P(1))))
                out.append(core.f_row(K, PROP, inh(A, "rem_euclid"), call(inh(A, "rem"), P(0), P(1))))
                out.append(core.f_row(K, PROP, inh(A, "div_floor"), call(inh(A, "div"), P(0), P(1))))
                out.append(core.f_row(K, PROP, inh(A, "checked_div_euclid"), call(inh(A, "checked_div"), P(0), P(1))))
                out.append(core.f_row(K, PROP, inh(A, "checked_rem_euclid"), call(inh(A, "checked_rem"), P(0), P(1))))
    return out

"""C18 - num_traits / num_integer implementations.

Decided: F - every forwarding impl (Checked*/Wrapping*/Saturating*/Overflowing*, Euclid, CheckedEuclid, Pow,
Bounded, Zero/One, Num, Signed, the PrimInt forwarders, MulAdd) equals the inherent method of the same stem and
mode; G - Integer::{div_floor, mod_floor, div_rem, is_multiple_of, is_even/is_odd} on sign representatives
against the num-integer documentation (floor rounding, remainder with the divisor's sign; div_rem truncates),
PrimInt::signed_shr / unsigned_shr, Signed::abs_sub; P- - Roots::{sqrt, cbrt, nth_root} reach no overflow
panic class outside the audit table.
Not decided: gcd / lcm values, root values (Newton iteration).
"""
from .common import *
from . import arith, c03
from analysis import core, audit
from analysis.guards import PI

PROP = "C18"
INFO = dict(
    explanation="Clause decided: the num-traits forwarders equal the inherent methods; Integer's floor division / modulus / div_rem follow the "
                "num-integer contract on every sign combination; Roots cannot raise an arithmetic-overflow panic (audited may-analysis).",
    not_decided="gcd, lcm, sqrt/cbrt/nth_root values",
    assumptions=["P- rows are a may-analysis restricted to API-contract panic classes; audited triples in spec/panic_audit.json"],
)

NT = "num_traits::"
BYREF2 = [("CheckedAdd", "checked_add"), ("CheckedSub", "checked_sub"), ("CheckedMul", "checked_mul"), ("CheckedDiv", "checked_div"),
          ("CheckedRem", "checked_rem"), ("SaturatingAdd", "saturating_add"), ("SaturatingSub", "saturating_sub"),
          ("SaturatingMul", "saturating_mul"), ("WrappingAdd", "wrapping_add"), ("WrappingSub", "wrapping_sub"),
          ("WrappingMul", "wrapping_mul"), ("ops::overflowing::OverflowingAdd", "overflowing_add"),
          ("ops::overflowing::OverflowingSub", "overflowing_sub")]
PRIMINT1 = ["count_ones", "count_zeros", "leading_zeros", "trailing_zeros", "swap_bytes", "leading_ones", "trailing_ones", "reverse_bits"]


EXACT = {"add": (lambda W, a, b: a + b, "overflow(add)"), "sub": (lambda W, a, b: a - b, "overflow(sub)"),
         "mul": (lambda W, a, b: a * b, "overflow(mul)")}


def trait_value_rows(K, A, PROP=PROP, stems=None):
    """G rows for the num-traits operator traits: outcome on boundary operands == the primitive-integer semantics
    (shared with C01/C02/C03, which claim the same clause for their own operations: `stems` selects them)"""
    out = []
    if K.F.lookup(tr(A, NT + "CheckedAdd", [], "checked_add")) is None:
        return out          # configuration without the numtraits feature
    c03.W_debug[0] = K.debug
    rows = [(NT + trn, m) for trn, m in BYREF2] + [(NT + "Saturating", "saturating_add"), (NT + "Saturating", "saturating_sub"),
                                                    (NT + "CheckedEuclid", "checked_div_euclid"), (NT + "CheckedEuclid", "checked_rem_euclid"),
                                                    (NT + "Euclid", "div_euclid"), (NT + "Euclid", "rem_euclid")]
    for trn, m in rows:
        form, _, op = m.partition("_") if m.split("_")[0] in arith.FORMS else ("plain", "", m)
        if stems is not None and op not in stems:
            continue
        fid = tr(A, trn, [], m)
        if op in EXACT:
            fn, cls = EXACT[op]
            reps = arith.small_reps(A, "TT", arith.form_expect(form, A, fn, cls, K.debug))
        else:
            reps = c03.reps_for(A, form, op)
        out += core.g_row(K, PROP, fid, reps, tag="")
    if stems is not None and "neg" not in stems:
        return out
    neg = lambda W, a: -a
    out += core.g_row(K, PROP, tr(A, NT + "CheckedNeg", [], "checked_neg"), arith.small_reps(A, "T", arith.form_expect("checked", A, neg, "overflow(neg)", K.debug)))
    out += core.g_row(K, PROP, tr(A, NT + "WrappingNeg", [], "wrapping_neg"), arith.small_reps(A, "T", arith.form_expect("wrapping", A, neg, "overflow(neg)", K.debug)))
    return out


def obligations(ctx, tier):
    out = []
    aud = audit.default()
    for cfg in (["Kd", "Kr"] if tier == "quick" else ["Kd", "Kr", "Kdn", "Krn"]):
        K = ctx.k(cfg)
        F = K.F
        for A in ADTS:
            T = T_(A)
            sg = is_signed(A)
            # ---- forwarders
            for trn, m in BYREF2:
                out.append(core.f_row(K, PROP, tr(A, NT + trn, [], m), call(inh(A, m), P(0), P(1))))
            out.append(core.f_row(K, PROP, tr(A, NT + "CheckedNeg", [], "checked_neg"), call(inh(A, "checked_neg"), P(0))))
            out.append(core.f_row(K, PROP, tr(A, NT + "WrappingNeg", [], "wrapping_neg"), call(inh(A, "wrapping_neg"), P(0))))
            for trn, m in (("CheckedShl", "checked_shl"), ("CheckedShr", "checked_shr"), ("WrappingShl", "wrapping_shl"), ("WrappingShr", "wrapping_shr")):
                out.append(core.f_row(K, PROP, tr(A, NT + trn, [], m), call(inh(A, m), P(0), P(1))))
            for m in ("checked_div_euclid", "checked_rem_euclid"):
                out.append(core.f_row(K, PROP, tr(A, NT + "CheckedEuclid", [], m), call(inh(A, m), P(0), P(1))))
            for m in ("div_euclid", "rem_euclid"):
                out.append(core.f_row(K, PROP, tr(A, NT + "Euclid", [], m), call(inh(A, m), P(0), P(1))))
            out.append(core.f_row(K, PROP, tr(A, NT + "Pow", ["u32"], "pow"), call(inh(A, "pow"), P(0), P(1))))
            for m in ("saturating_add", "saturating_sub"):
                out.append(core.f_row(K, PROP, tr(A, NT + "Saturating", [], m), call(inh(A, m), P(0), P(1))))
            # ---- the same impls against the reference semantics on a boundary grid (G): a hand-written body that is no
            #      longer a forwarder is still decided
            out += trait_value_rows(K, A)
            out.append(core.f_row(K, PROP, tr(A, NT + "Bounded", [], "min_value"), const(inh(A, "MIN"))))
            out.append(core.f_row(K, PROP, tr(A, NT + "Bounded", [], "max_value"), const(inh(A, "MAX"))))
            out.append(core.f_row(K, PROP, tr(A, NT + "Zero", [], "zero"), const(inh(A, "ZERO"))))
            out.append(core.f_row(K, PROP, tr(A, NT + "One", [], "one"), const(inh(A, "ONE"))))
            out.append(core.f_row(K, PROP, tr(A, NT + "Zero", [], "is_zero"), call(inh(A, "is_zero"), P(0))))
            out.append(core.f_row(K, PROP, tr(A, NT + "One", [], "is_one"), call(inh(A, "is_one"), P(0))))
            out.append(core.f_row(K, PROP, tr(A, NT + "Num", [], "from_str_radix"), call(inh(A, "from_str_radix"), P(0), P(1))))
            out.append(core.f_row(K, PROP, tr(A, NT + "MulAdd", [T, T], "mul_add"),
                                  call(tr(A, OPS + "Add", [T], "add"), call(tr(A, OPS + "Mul", [T], "mul"), P(0), P(1)), P(2))))
            out.append(core.f_row(K, PROP, tr(A, NT + "MulAddAssign", [T, T], "mul_add_assign"),
                                  store0(call(tr(A, OPS + "Add", [T], "add"), call(tr(A, OPS + "Mul", [T], "mul"), P(0), P(1)), P(2)))))
            for m in PRIMINT1:
                out.append(core.f_row(K, PROP, tr(A, NT + "PrimInt", [], m), call(inh(A, m), P(0))))
            for m in ("rotate_left", "rotate_right"):
                out.append(core.f_row(K, PROP, tr(A, NT + "PrimInt", [], m), call(inh(A, m), P(0), P(1))))
            out.append(core.f_row(K, PROP, tr(A, NT + "PrimInt", [], "pow"), call(inh(A, "pow"), P(0), P(1))))
            for m in ("from_be", "from_le", "to_be", "to_le"):
                out.append(core.f_row(K, PROP, tr(A, NT + "PrimInt", [], m), call(inh(A, m), P(0))))
            # PrimInt shifts
            shl = tr(A, OPS + "Shl", ["u32"], "shl")
            shr = tr(A, OPS + "Shr", ["u32"], "shr")
            if sg:
                U = TWIN[A]
                out.append(core.f_row(K, PROP, tr(A, NT + "PrimInt", [], "signed_shl"), call(shl, P(0), P(1))))
                out.append(core.f_row(K, PROP, tr(A, NT + "PrimInt", [], "signed_shr"), call(shr, P(0), P(1))))
                out.append(core.f_row(K, PROP, tr(A, NT + "PrimInt", [], "unsigned_shl"), call(shl, P(0), P(1))))
                out += core.g_row(K, PROP, tr(A, NT + "PrimInt", [], "unsigned_shr"),
                                  arith.reps(A, "Ts", (lambda A=A: lambda W, env: ("val", W.wrap(A, (env[0].v & ((1 << W.bits(A)) - 1)) >> env[1].v))
                                                       if env[1].v < W.bits(A) else ("any",))()))
                for m in ("abs", "signum", "is_positive", "is_negative"):
                    out.append(core.f_row(K, PROP, tr(A, NT + "Signed", [], m), call(inh(A, m), P(0))))
                out += core.g_row(K, PROP, tr(A, NT + "Signed", [], "abs_sub"),
                                  arith.reps(A, "TT", arith.form_expect("plain", A, lambda W, a, b: max(a - b, 0), "overflow(sub)", K.debug)))
            else:
                out.append(core.f_row(K, PROP, tr(A, NT + "PrimInt", [], "signed_shl"), call(shl, P(0), P(1))))
                out.append(core.f_row(K, PROP, tr(A, NT + "PrimInt", [], "unsigned_shl"), call(shl, P(0), P(1))))
                out.append(core.f_row(K, PROP, tr(A, NT + "PrimInt", [], "unsigned_shr"), call(shr, P(0), P(1))))

                def sshr(W, env, A=A):
                    w = W.bits(A)
                    x, s = env[0].v, env[1].v
                    if s >= w:
                        return ("any",)
                    sx = x - (1 << w) if x >> (w - 1) else x
                    return ("val", W.wrap(A, sx >> s))
                out += core.g_row(K, PROP, tr(A, NT + "PrimInt", [], "signed_shr"), arith.reps(A, "Ts", sshr))
            # ---- Integer: floor division / modulus / div_rem / multiples / parity
            I_ = "num_integer::Integer"

            def integer_expect(kind, A=A, dbg=K.debug):
                def f(W, env):
                    a, b = env[0].v, env[1].v
                    lo, hi = arith.rng(W, A)
                    if b == 0:
                        return ("panic", "zero_divisor") if kind != "is_multiple_of" else ("any",)
                    if a == lo and b == -1:
                        return ("any",)
                    q, r = a // b, a % b            # python: floor division, remainder with the divisor's sign
                    if kind == "div_floor":
                        return ("val", W.wrap(A, q))
                    if kind == "mod_floor":
                        return ("val", W.wrap(A, r))
                    if kind == "div_rem":
                        return ("val", ("tuple", (W.wrap(A, c03.tdiv(a, b)), W.wrap(A, c03.trem(a, b)))))
                    if kind == "div_mod_floor":
                        return ("val", ("tuple", (W.wrap(A, q), W.wrap(A, r))))
                    if kind == "is_multiple_of":
                        return ("val", r == 0)
                return f
            reps_ab = [(n, env_of(p0=c03.val(A, a), p1=c03.val(A, b))) for n, a, b in c03.pairs(A)]
            for kind in ("div_floor", "mod_floor", "div_rem", "is_multiple_of"):
                out += core.g_row(K, PROP, tr(A, I_, [], kind), [(n, e, integer_expect(kind)) for n, e in reps_ab])
            # `divides` is the deprecated alias of is_multiple_of (same operand order)
            out += core.g_row(K, PROP, tr(A, I_, [], "divides"), [(n, e, integer_expect("is_multiple_of")) for n, e in reps_ab])
            out += core.g_row(K, PROP, tr(A, I_, [], "is_even"), arith.reps(A, "T", lambda W, env: ("val", env[0].v % 2 == 0)))
            out += core.g_row(K, PROP, tr(A, I_, [], "is_odd"), arith.reps(A, "T", lambda W, env: ("val", env[0].v % 2 == 1)))
            # ---- lcm: representable whenever the lcm itself is (the product a*b need not be)
            if not sg:
                import math

                def lcm_expect(W, env, A=A, dbg=K.debug):
                    a, b = env[0].v, env[1].v
                    lo, hi = arith.rng(W, A)
                    if a == 0 or b == 0:
                        return ("val", W.wrap(A, 0))
                    l = a * b // math.gcd(a, b)
                    if l > hi:
                        return ("any",)
                    return ("val", W.wrap(A, l))
                lreps = arith.reps(A, "TT", lcm_expect)
                lreps += [("shared_" + n, (lambda fa, fb, A=A: lambda W: {0: W.wrap(A, fa(W)), 1: W.wrap(A, fb(W))})(fa, fb), lcm_expect)
                          for n, fa, fb in (("16_24", lambda W: 1 << (W.bits(A) - 4), lambda W: 3 << (W.bits(A) - 5)),
                                            ("sq", lambda W: 1 << (W.bits(A) // 2 + 1), lambda W: 1 << (W.bits(A) // 2 + 1)),
                                            ("6_4", lambda W: 6, lambda W: 4))]
                out += core.g_row(K, PROP, tr(A, I_, [], "lcm"), lreps)
                # nth_root early exits: value below 2^n has root 1; a value with at least n+1 bits has root >= 2
                def nroot(kind, A=A):
                    def env_fn(W):
                        w = W.bits(A)
                        x = 1 << (w - 2)            # bit length w - 1
                        n = {"eq": w - 1, "below": w - 2, "above": w + 5}[kind]
                        return {0: W.wrap(A, x), 1: PI("u32", n)}
                    def exp_fn(W, env):
                        w = W.bits(A)
                        return ("not", ("val", W.wrap(A, 1))) if kind == "below" else ("val", W.wrap(A, 1))
                    return ("bitlen_%s" % kind, env_fn, exp_fn)
                out += core.g_row(K, PROP, tr(A, "num_integer::Roots", [], "nth_root"), [nroot("eq"), nroot("below"), nroot("above")])
            # ---- Roots: degree 0 panics, degree 1 is the identity (also for MIN), even roots of negatives panic
            def root_deg(W, env, A=A):
                x, n = env[0].v, env[1].v
                if n == 0:
                    return ("panic", "zeroth_root")
                if n == 1:
                    return ("val", W.wrap(A, x))
                if x < 0 and n % 2 == 0:
                    return ("panic", "imaginary_root")
                return ("any",)
            dreps = []
            for n_, f_ in arith.small_values(A):
                for deg in (0, 1, 2, 4):
                    dreps.append(("deg%d_%s" % (deg, n_), (lambda f_=f_, deg=deg, A=A: lambda W: {0: W.wrap(A, f_(W)), 1: PI("u32", deg)})(), root_deg))
            out += core.g_row(K, PROP, tr(A, "num_integer::Roots", [], "nth_root"), dreps)
            # ---- Roots: no arithmetic-overflow panic
            R_ = "num_integer::Roots"
            allowed = {"zeroth_root", "imaginary_root", "zero_divisor"}
            for m in ("sqrt", "cbrt", "nth_root"):
                out += core.p_minus(K, PROP, tr(A, R_, [], m), allowed, aud)
            out.append(core.p_plus(K, PROP, tr(A, R_, [], "nth_root"), "zeroth_root"))
    return out

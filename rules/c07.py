"""C07 - comparison, equality, hashing.

Decided: complete decision tables of lt/le/gt/ge/max/min/clamp relative to `cmp` (G over the three
orderings), signum / is_positive / is_negative routing relative to the sign atoms, trait forwarding (F),
and the representation facts that make derived equality digit-array identity and Hash coherent (S).
Not decided: that `cmp` itself orders by value, the digit loops of `eq` / `is_negative`.
"""
from .common import *
from analysis import core

PROP = "C07"
INFO = dict(
    explanation="Clause decided: lt/le/gt/ge/min/max/clamp are the documented functions of cmp's Ordering on all three orderings; "
                "ne == !eq; signum/is_positive route on (is_negative, is_zero) as documented; PartialOrd/Ord/Signed forward to the inherent methods; "
                "PartialEq/Eq/Hash are compiler-derived impls over the single field of a repr(transparent) struct.",
    not_decided="that cmp orders by numeric value (MSD-first scan, signed top digit); digit loops of eq/is_negative",
)


def order_reps(A):
    """three representatives: self < other, self == other, self > other"""
    lo, hi = (-3, 5) if is_signed(A) else (3, 5)
    return [("less", V(A, lo), V(A, hi)), ("equal", V(A, hi), V(A, hi)), ("greater", V(A, hi), V(A, lo))]


def obligations(ctx, tier):
    out = []
    configs = ["Kd", "Kr"] if tier == "quick" else ["Kd", "Kr", "Kd0", "Kr0"]
    for cfg in configs:
        K = ctx.k(cfg)
        has_nt = "numtraits" in build_features(cfg)
        for A in ADTS:
            T = T_(A)
            # ---- G: boolean comparisons and selections as functions of the ordering
            for m, fn in (("lt", lambda a, b: a < b), ("le", lambda a, b: a <= b), ("gt", lambda a, b: a > b),
                          ("ge", lambda a, b: a >= b), ("eq", lambda a, b: a == b), ("ne", lambda a, b: a != b)):
                reps = []
                for name, a, b in order_reps(A):
                    reps.append((name, env_of(p0=a, p1=b), (lambda f: lambda W, env: ("val", f(env[0].v, env[1].v)))(fn)))
                for fid in (inh(A, m),):
                    out += core.g_row(K, PROP, fid, reps)
            for m, fn in (("max", max), ("min", min)):
                reps = []
                for name, a, b in order_reps(A):
                    reps.append((name, env_of(p0=a, p1=b),
                                 (lambda f, A=A: lambda W, env: ("val", W.wrap(A, f(env[0].v, env[1].v))))(fn)))
                out += core.g_row(K, PROP, inh(A, m), reps)
            # clamp(self, min, max) with min <= max
            reps = []
            lo, hi = (-4, 6) if is_signed(A) else (4, 6)
            for name, x in (("below", lo - 1), ("at_min", lo), ("inside", lo + 1), ("at_max", hi), ("above", hi + 1)):
                reps.append((name, env_of(p0=V(A, x), p1=V(A, lo), p2=V(A, hi)),
                             (lambda x=x, lo=lo, hi=hi, A=A: lambda W, env: ("val", W.wrap(A, min(max(x, lo), hi))))()))
            out += core.g_row(K, PROP, inh(A, "clamp"), reps)
            # ---- F: trait methods forward to the inherent ones
            out.append(core.f_row(K, PROP, tr(A, "core::cmp::PartialOrd", [T], "partial_cmp"), some(call(inh(A, "cmp"), P(0), P(1)))))
            out.append(core.f_row(K, PROP, tr(A, "core::cmp::Ord", [], "cmp"), call(inh(A, "cmp"), P(0), P(1))))
            for m in ("max", "min"):
                out.append(core.f_row(K, PROP, tr(A, "core::cmp::Ord", [], m), call(inh(A, m), P(0), P(1))))
            out.append(core.f_row(K, PROP, tr(A, "core::cmp::Ord", [], "clamp"), call(inh(A, "clamp"), P(0), P(1), P(2))))
            # ---- P-: comparisons and sign predicates never reach an API-contract panic
            from analysis import audit
            for m in ["cmp", "eq", "ne", "lt", "le", "gt", "ge", "max", "min"] + (["signum", "is_positive", "is_negative"] if is_signed(A) else []):
                out += core.p_minus(K, PROP, inh(A, m), set(), audit.default())
            # ---- S: derived equality / hashing over the single representation field
            out += s_rows(K, A)
            # ---- sign functions (signed)
            if is_signed(A):
                sign_reps = [("negative", V(A, -7)), ("zero", V(A, 0)), ("positive", V(A, 9)), ("min", C(A, "MIN")), ("max", C(A, "MAX"))]
                out += core.g_row(K, PROP, inh(A, "signum"),
                                  [(n, env_of(p0=v), (lambda A=A: lambda W, env: ("val", W.wrap(A, (env[0].v > 0) - (env[0].v < 0))))())
                                   for n, v in sign_reps])
                # the sign predicates read the top digit: decidable now that digit arrays are modelled
                out += core.g_row(K, PROP, inh(A, "is_positive"),
                                  [(n, env_of(p0=v), lambda W, env: ("val", env[0].v > 0)) for n, v in sign_reps + more_sign_reps(A)])
                out += core.g_row(K, PROP, inh(A, "is_negative"),
                                  [(n, env_of(p0=v), lambda W, env: ("val", env[0].v < 0)) for n, v in sign_reps + more_sign_reps(A)])
                if has_nt:
                    S_ = "num_traits::Signed"
                    for m in ("is_positive", "is_negative", "signum", "abs"):
                        out.append(core.f_row(K, PROP, tr(A, S_, [], m), call(inh(A, m), P(0))))
                    out += core.g_row(K, PROP, tr(A, S_, [], "is_positive"),
                                      [(n, env_of(p0=v), lambda W, env: ("val", env[0].v > 0)) for n, v in sign_reps])
                    out += core.g_row(K, PROP, tr(A, S_, [], "is_negative"),
                                      [(n, env_of(p0=v), lambda W, env: ("val", env[0].v < 0)) for n, v in sign_reps])
                    out += core.g_row(K, PROP, tr(A, S_, [], "signum"),
                                      [(n, env_of(p0=v), (lambda A=A: lambda W, env: ("val", W.wrap(A, (env[0].v > 0) - (env[0].v < 0))))())
                                       for n, v in sign_reps])
    return out


def more_sign_reps(A):
    """values whose top digit is zero / all ones while lower digits are not, and single-low-digit values"""
    return [("one", V(A, 1)), ("low_digit", V(A, 77)), ("neg_one", V(A, -1)),
            ("second_digit", lambda W: W.wrap(A, 1 << (W.bits(A) // W.n)) if W.n > 1 else W.wrap(A, 2)),
            ("below_top_digit", lambda W: W.wrap(A, (1 << (W.bits(A) - W.bits(A) // W.n)) - 1) if W.n > 1 else W.wrap(A, 3)),
            ("neg_low", lambda W: W.wrap(A, -(1 << (W.bits(A) // W.n)) - 5) if W.n > 1 else W.wrap(A, -3))]


def build_features(cfg):
    from analysis import build
    return build.CONFIGS[cfg]["features"]


def s_rows(K, A):
    """PartialEq / Eq / Hash are #[automatically_derived] impls; the struct is repr(transparent) over one field."""
    F = K.F
    out = []
    adt = F.adts.get(A)
    key = "%s:S:%s:%s:repr" % (PROP, K.config, A)
    if adt is None:
        return [core.missing(PROP, "S", K, A, "type")]
    fields = adt["variants"][0]["fields"] if adt["variants"] else []
    if len(fields) == 1 and adt["transparent"]:
        out.append(core.Ob(key, PROP, "S", K.config, A, core.PROVED,
                           "repr(transparent) struct with the single field `%s: %s`" % (fields[0]["name"], fields[0]["ty"])))
    else:
        out.append(core.Ob(key, PROP, "S", K.config, A, core.UNDECIDED,
                           "representation is no longer a single-field repr(transparent) struct (fields=%s transparent=%s): "
                           "derived equality is not digit-array identity by construction any more"
                           % ([f["name"] for f in fields], adt["transparent"])))
    for trait in ("core::cmp::PartialEq", "core::cmp::Eq", "core::hash::Hash"):
        key = "%s:S:%s:%s:%s" % (PROP, K.config, A, trait)
        impls = [i for i in F.impls if i["trait"] == trait and i["self_head"] == A and i["self_refs"] == 0
                 and (trait != "core::cmp::PartialEq" or not i["trait_args"] or A in i["trait_args"][0])]
        if not impls:
            out.append(core.Ob(key, PROP, "S", K.config, A, core.VIOLATED, "anchor-missing: no impl of %s for %s" % (trait, A)))
        elif all(i["derived"] for i in impls):
            out.append(core.Ob(key, PROP, "S", K.config, A, core.PROVED, "impl %s is #[automatically_derived] (field-wise over the single field)" % trait))
        else:
            out.append(core.Ob(key, PROP, "S", K.config, A, core.UNDECIDED,
                               "impl %s is hand-written; Eq/Hash coherence is no longer by construction" % trait))
    return out

"""C07 - comparison, equality, hashing.

Decided: complete decision tables of lt/le/gt/ge/max/min/clamp relative to `cmp` (G over the three
orderings), signum / is_positive / is_negative routing relative to the sign atoms, trait forwarding (F),
and the representation facts that make derived equality digit-array identity and Hash coherent (S).
Not decided: that `cmp` itself orders by value, the digit loops of `eq` / `is_negative`.
"""
from .common import *
from analysis import core
from . import arith

PROP = "C07"
INFO = dict(
    explanation="Clause decided: lt/le/gt/ge/min/max/clamp are the documented functions of cmp's Ordering on all three orderings; "
                "ne == !eq; signum/is_positive route on (is_negative, is_zero) as documented; PartialOrd/Ord/Signed forward to the inherent methods; "
                "PartialEq/Eq/Hash are compiler-derived impls over the single field of a repr(transparent) struct.",
    not_decided="that cmp orders by numeric value (MSD-first scan, signed top digit); digit loops of eq/is_negative",
)


def order_reps(A):
    """three representatives: self < other, self == other, self > other"""
    lo, hi = (-3, 5) if is_signed(A) else (3, 5)
    return [("less", V(A, lo), V(A, hi)), ("equal", V(A, hi), V(A, hi)), ("greater", V(A, hi), V(A, lo))]


def wide_pairs(A):
    """(name, a, b) value functions of the world: small, boundary, and pairs differing only in high bits"""
    def top(W):
        return 1 << (W.bits(A) - 2)
    ps = [("s_less", lambda W: 3, lambda W: 5), ("s_equal", lambda W: 5, lambda W: 5), ("s_greater", lambda W: 5, lambda W: 3),
          ("hi_less", lambda W: 5, lambda W: top(W) + 3), ("hi_greater", lambda W: top(W) + 3, lambda W: 5),
          ("hi_equal", lambda W: top(W) + 3, lambda W: top(W) + 3), ("hi_low_less", lambda W: top(W) + 3, lambda W: top(W) + 5),
          ("hi_only", lambda W: top(W) + 3, lambda W: 2 * top(W) - 1 if False else top(W) + (top(W) >> 1) + 3),
          ("d2_less", lambda W: (1 << (W.bits(A) // 2)) + 9, lambda W: (1 << (W.bits(A) // 2 + 1)) + 1),
          ("max_pair", lambda W: arith.rng(W, A)[1] - 1, lambda W: arith.rng(W, A)[1])]
    if is_signed(A):
        ps += [("neg_less", lambda W: -3, lambda W: 5), ("neg_neg", lambda W: -5, lambda W: -3), ("min_max", lambda W: arith.rng(W, A)[0], lambda W: arith.rng(W, A)[1]),
               ("neg_hi", lambda W: -top(W) - 3, lambda W: -5), ("neg_hi_only", lambda W: -top(W) - (top(W) >> 1) - 3, lambda W: -top(W) - 3),
               ("neg_equal", lambda W: -top(W) - 3, lambda W: -top(W) - 3)]
    return ps


def trait_order_rows(K, A):
    T = T_(A)
    out = []

    def envf(fa, fb):
        return lambda W: {0: W.wrap(A, fa(W)), 1: W.wrap(A, fb(W))}

    def ordv(a, b):
        return 255 if a < b else (0 if a == b else 1)       # Ordering discriminants Less = -1 (0xff), Equal = 0, Greater = 1
    rows = [(tr(A, "core::cmp::Ord", [], "cmp"), lambda W, env: ("val", ordv(env[0].v, env[1].v))),
            (tr(A, "core::cmp::PartialOrd", [T], "partial_cmp"), lambda W, env: ("some", ordv(env[0].v, env[1].v))),
            (tr(A, "core::cmp::Ord", [], "max"), lambda W, env: ("val", W.wrap(A, max(env[0].v, env[1].v)))),
            (tr(A, "core::cmp::Ord", [], "min"), lambda W, env: ("val", W.wrap(A, min(env[0].v, env[1].v)))),
            (inh(A, "max"), lambda W, env: ("val", W.wrap(A, max(env[0].v, env[1].v)))),
            (inh(A, "min"), lambda W, env: ("val", W.wrap(A, min(env[0].v, env[1].v)))),
            (inh(A, "lt"), lambda W, env: ("val", env[0].v < env[1].v)), (inh(A, "ge"), lambda W, env: ("val", env[0].v >= env[1].v))]
    for fid, ex in rows:
        if K.F.lookup(fid) is None:
            continue
        reps = [("w_" + n, envf(fa, fb), ex) for n, fa, fb in wide_pairs(A)] + [("w_" + n + "_rev", envf(fb, fa), ex) for n, fa, fb in wide_pairs(A)]
        out += core.g_row(K, PROP, fid, reps)
    return out


def obligations(ctx, tier):
    out = []
    configs = ["Kd", "Kr"] if tier == "quick" else ["Kd", "Kr", "Kd0", "Kr0"]
    for cfg in configs:
        K = ctx.k(cfg)
        has_nt = "numtraits" in build_features(cfg)
        for A in ADTS:
            T = T_(A)
            # ---- G: boolean comparisons and selections as functions of the ordering
            for m, fn in (("lt", lambda a, b: a < b), ("le", lambda a, b: a <= b), ("gt", lambda a, b: a > b),
                          ("ge", lambda a, b: a >= b), ("eq", lambda a, b: a == b), ("ne", lambda a, b: a != b)):
                reps = []
                for name, a, b in order_reps(A):
                    reps.append((name, env_of(p0=a, p1=b), (lambda f: lambda W, env: ("val", f(env[0].v, env[1].v)))(fn)))
                for fid in (inh(A, m),):
                    out += core.g_row(K, PROP, fid, reps)
            for m, fn in (("max", max), ("min", min)):
                reps = []
                for name, a, b in order_reps(A):
                    reps.append((name, env_of(p0=a, p1=b),
                                 (lambda f, A=A: lambda W, env: ("val", W.wrap(A, f(env[0].v, env[1].v))))(fn)))
                out += core.g_row(K, PROP, inh(A, m), reps)
            # clamp(self, min, max) with min <= max
            reps = []
            lo, hi = (-4, 6) if is_signed(A) else (4, 6)
            for name, x in (("below", lo - 1), ("at_min", lo), ("inside", lo + 1), ("at_max", hi), ("above", hi + 1)):
                reps.append((name, env_of(p0=V(A, x), p1=V(A, lo), p2=V(A, hi)),
                             (lambda x=x, lo=lo, hi=hi, A=A: lambda W, env: ("val", W.wrap(A, min(max(x, lo), hi))))()))
            out += core.g_row(K, PROP, inh(A, "clamp"), reps)
            # clamp with an inverted range panics (inherent and through Ord), like the primitives' `assert!(min <= max)`
            inv = [("inverted", env_of(p0=V(A, 5), p1=V(A, 10), p2=V(A, 3)), expect(("panic", "*"))),
                   ("inverted_far", env_of(p0=V(A, 0), p1=C(A, "MAX"), p2=C(A, "MIN")), expect(("panic", "*")))]
            out += core.g_row(K, PROP, inh(A, "clamp"), inv)
            out += core.g_row(K, PROP, tr(A, "core::cmp::Ord", [], "clamp"), inv + reps)
            # ---- F: trait methods forward to the inherent ones
            out.append(core.f_row(K, PROP, tr(A, "core::cmp::PartialOrd", [T], "partial_cmp"), some(call(inh(A, "cmp"), P(0), P(1)))))
            out.append(core.f_row(K, PROP, tr(A, "core::cmp::Ord", [], "cmp"), call(inh(A, "cmp"), P(0), P(1))))
            for m in ("max", "min"):
                out.append(core.f_row(K, PROP, tr(A, "core::cmp::Ord", [], m), call(inh(A, m), P(0), P(1))))
            out.append(core.f_row(K, PROP, tr(A, "core::cmp::Ord", [], "clamp"), call(inh(A, "clamp"), P(0), P(1), P(2))))
            # ---- G: the trait entry points on ordered pairs, including pairs that differ only above bit 128 / in the top digit
            out += trait_order_rows(K, A)
            # ---- P-: comparisons and sign predicates never reach an API-contract panic
            from analysis import audit
            for m in ["cmp", "eq", "ne", "lt", "le", "gt", "ge", "max", "min"] + (["signum", "is_positive", "is_negative"] if is_signed(A) else []):
                out += core.p_minus(K, PROP, inh(A, m), set(), audit.default())
            # ---- S: derived equality / hashing over the single representation field
            out += s_rows(K, A)
            # ---- sign functions (signed)
            if is_signed(A):
                sign_reps = [("negative", V(A, -7)), ("zero", V(A, 0)), ("positive", V(A, 9)), ("min", C(A, "MIN")), ("max", C(A, "MAX"))]
                out += core.g_row(K, PROP, inh(A, "signum"),
                                  [(n, env_of(p0=v), (lambda A=A: lambda W, env: ("val", W.wrap(A, (env[0].v > 0) - (env[0].v < 0))))())
                                   for n, v in sign_reps])
                # the sign predicates read the top digit: decidable now that digit arrays are modelled
                out += core.g_row(K, PROP, inh(A, "is_positive"),
                                  [(n, env_of(p0=v), lambda W, env: ("val", env[0].v > 0)) for n, v in sign_reps + more_sign_reps(A)])
                out += core.g_row(K, PROP, inh(A, "is_negative"),
                                  [(n, env_of(p0=v), lambda W, env: ("val", env[0].v < 0)) for n, v in sign_reps + more_sign_reps(A)])
                if has_nt:
                    S_ = "num_traits::Signed"
                    for m in ("is_positive", "is_negative", "signum", "abs"):
                        out.append(core.f_row(K, PROP, tr(A, S_, [], m), call(inh(A, m), P(0))))
                    out += core.g_row(K, PROP, tr(A, S_, [], "is_positive"),
                                      [(n, env_of(p0=v), lambda W, env: ("val", env[0].v > 0)) for n, v in sign_reps])
                    out += core.g_row(K, PROP, tr(A, S_, [], "is_negative"),
                                      [(n, env_of(p0=v), lambda W, env: ("val", env[0].v < 0)) for n, v in sign_reps])
                    out += core.g_row(K, PROP, tr(A, S_, [], "signum"),
                                      [(n, env_of(p0=v), (lambda A=A: lambda W, env: ("val", W.wrap(A, (env[0].v > 0) - (env[0].v < 0))))())
                                       for n, v in sign_reps])
    return out


def more_sign_reps(A):
    """values whose top digit is zero / all ones while lower digits are not, and single-low-digit values"""
    return [("one", V(A, 1)), ("low_digit", V(A, 77)), ("neg_one", V(A, -1)),
            ("second_digit", lambda W: W.wrap(A, 1 << (W.bits(A) // W.n)) if W.n > 1 else W.wrap(A, 2)),
            ("below_top_digit", lambda W: W.wrap(A, (1 << (W.bits(A) - W.bits(A) // W.n)) - 1) if W.n > 1 else W.wrap(A, 3)),
            ("neg_low", lambda W: W.wrap(A, -(1 << (W.bits(A) // W.n)) - 5) if W.n > 1 else W.wrap(A, -3))]


def build_features(cfg):
    from analysis import build
    return build.CONFIGS[cfg]["features"]


def s_rows(K, A):
    """PartialEq / Eq / Hash are #[automatically_derived] impls; the struct is repr(transparent) over one field."""
    F = K.F
    out = []
    adt = F.adts.get(A)
    key = "%s:S:%s:%s:repr" % (PROP, K.config, A)
    if adt is None:
        return [core.missing(PROP, "S", K, A, "type")]
    fields = adt["variants"][0]["fields"] if adt["variants"] else []
    if len(fields) == 1 and adt["transparent"]:
        out.append(core.Ob(key, PROP, "S", K.config, A, core.PROVED,
                           "repr(transparent) struct with the single field `%s: %s`" % (fields[0]["name"], fields[0]["ty"])))
    else:
        out.append(core.Ob(key, PROP, "S", K.config, A, core.UNDECIDED,
                           "representation is no longer a single-field repr(transparent) struct (fields=%s transparent=%s): "
                           "derived equality is not digit-array identity by construction any more"
                           % ([f["name"] for f in fields], adt["transparent"])))
    for trait in ("core::cmp::PartialEq", "core::cmp::Eq", "core::hash::Hash"):
        key = "%s:S:%s:%s:%s" % (PROP, K.config, A, trait)
        impls = [i for i in F.impls if i["trait"] == trait and i["self_head"] == A and i["self_refs"] == 0
                 and (trait != "core::cmp::PartialEq" or not i["trait_args"] or A in i["trait_args"][0])]
        if not impls:
            out.append(core.Ob(key, PROP, "S", K.config, A, core.VIOLATED, "anchor-missing: no impl of %s for %s" % (trait, A)))
        elif all(i["derived"] for i in impls):
            out.append(core.Ob(key, PROP, "S", K.config, A, core.PROVED, "impl %s is #[automatically_derived] (field-wise over the single field)" % trait))
        else:
            out.append(core.Ob(key, PROP, "S", K.config, A, core.UNDECIDED,
                               "impl %s is hand-written; Eq/Hash coherence is no longer by construction" % trait))
    return out

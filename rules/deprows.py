"""Rule D rows - required dependences between input leaves (digits, bytes, scalar operands) and output leaves.

Each row states mathematical facts about the *specified* function ("digit k of a + b varies with digits j <= k of both
operands and with nothing else being required"), never facts about today's code.  Only dependences that certainly exist
in the specification are listed (a subset is always safe: the verdict is drawn from a required pair being impossible).
The shape (digit counts N / M, slice length, shift amount, bit index) is concrete per row; operand *values* are never
chosen.  See analysis/deps.py and DESIGN.md 2.2(f).
"""
from analysis import core, deps
from analysis.facts import ADTS, UNSIGNED, SIGNED, DIGIT, TWIN, PRIM_INTS, is_signed
from .common import inh, tr

DB = {"u64": 64, "u32": 32, "u16": 16, "u8": 8}
PBITS = {"u8": 8, "u16": 16, "u32": 32, "u64": 64, "u128": 128, "usize": 64, "i8": 8, "i16": 16, "i32": 32, "i64": 64, "i128": 128, "isize": 64}

QUICK_N = (1, 2, 3, 4)
# the loops most likely to be unrolled by 2 / 4 with a remainder step are also analysed at counts that have a full block AND
# a remainder (5 = 4 + 1, 6 = 4 + 2, 7 = 4 + 3) already in the quick tier
QUICK_N_WIDE = (1, 2, 3, 4, 5, 6, 7)
QUICK_WIDE = ("C01", "C02", "C06", "C07", "C15")
THOROUGH_N = (1, 2, 3, 4, 5, 6, 7, 8, 9)


def db_of(A):
    return DB[DIGIT[A]]


# ------------------------------------------------------------------------------------------------ argument builders
def build(c, n_default):
    k = c[0]
    if k == "U":
        return deps.buint(c[1], c[2] if len(c) > 2 and c[2] is not None else n_default, c[3] if len(c) > 3 else None)
    if k == "I":
        return deps.bint(c[1], c[2] if len(c) > 2 and c[2] is not None else n_default, c[3] if len(c) > 3 else None)
    if k == "c":
        return deps.conc(c[1], c[2])
    if k == "p":
        return deps.leaf(c[1], c[2])
    if k == "bytes":
        return ("arr", tuple(deps.leaf("%s[%d]" % (c[1], j), "u8") for j in range(c[2])))
    if k == "text":
        # a string whose first byte is fixed (a digit, '0', '+' or '-') and whose other bytes are input leaves
        return ("arr", (deps.conc(c[3], "u8"),) + tuple(deps.leaf("%s[%d]" % (c[1], j), "u8") for j in range(1, c[2])))
    if k == "digs":
        return deps.digits(c[1], c[2], c[3] if len(c) > 3 else None)
    if k == "rng":
        return deps.TOP(frozenset(["rng"]))
    raise ValueError(c)


def mk_args(F, root, contents, n):
    body = F.bodies[F.instances[root]["d"]]

    def make(heap):
        out = []
        for i, c in enumerate(contents):
            ty = body["locals"][i + 1] if i + 1 < len(body["locals"]) else ""
            v = build(c, n)
            t = ty.strip()
            depth = 0
            while t.startswith("&"):
                t = t[1:].lstrip()
                if t.startswith("mut "):
                    t = t[4:].lstrip()
                depth += 1
            for _ in range(depth):
                v = heap.cell(v)
            out.append(v)
        return out
    return make


def val_of(A, label, n=None):
    """operand of type A (its digits carry byte leaves `label[j]#b` next to the digit leaf `label[j]`)"""
    return ("I" if is_signed(A) else "U", label, n, DIGIT[A])


def dig_path(A):
    """path from a bnum value to its digit array"""
    return (0, 0) if is_signed(A) else (0,)


def lab(label, js):
    return {"%s[%d]" % (label, j) for j in js}


# ------------------------------------------------------------------------------------------------ the generic row
PARTIAL = ("strict_", "unchecked_")
PARTIAL_EXACT = {"add", "sub", "mul", "neg", "abs", "pow", "shl", "shr", "next_power_of_two", "div", "rem", "add_assign", "sub_assign", "mul_assign",
                 "shl_assign", "shr_assign", "div_assign", "rem_assign", "mul_add", "abs_sub", "nth_root", "sqrt", "cbrt", "ilog", "ilog2", "ilog10"}


def is_total(fid):
    """the contract gives this function a result for every input of every shape the rows use (it never panics there):
    everything except the strict / unsuffixed arithmetic forms"""
    m = fid.rsplit("::", 1)[-1]
    return not (m.startswith(PARTIAL) or m in PARTIAL_EXACT)


RECORD = None        # tools/validate_deprows.py sets this to a list to collect every row's specification


def row(K, prop, fid, name, shape, contents, required, n, soft=False, by_ref_out=False, inst=None):
    if RECORD is not None:
        RECORD.append(dict(prop=prop, fid=fid, name=name, shape=dict(shape), contents=list(contents), required=list(required), n=n,
                           by_ref_out=by_ref_out, config=K.config))
    F = K.F
    root = inst if inst is not None else F.root_of(fid)
    if root is None:
        return core.d_row(K, prop, fid, name, shape, None, required, soft=soft)
    out_of = None
    if by_ref_out:
        out_of = lambda ret, I: I.final_heap[0]     # noqa: E731  (what `&mut self`, the first cell, holds afterwards)
    return core.d_row(K, prop, fid, name, shape, mk_args(F, root, contents, n), required, inst=root, soft=soft, out_of=out_of,
                      total=is_total(fid) and not soft)


def ret_forms(A, form):
    """(prefix path to the value, path to the flag / discriminant or None) for a result of the given form"""
    if form == "val":
        return (), None
    if form == "pair":
        return (0,), (1,)
    if form == "opt":
        return (("some",), 0), ("discr",)
    raise ValueError(form)


def exists(K, fid):
    return K.F.lookup(fid) is not None


# ------------------------------------------------------------------------------------------------ C01
ADD_FORMS = [("overflowing_add", "pair"), ("overflowing_sub", "pair"), ("wrapping_add", "val"), ("wrapping_sub", "val"),
             ("checked_add", "opt"), ("checked_sub", "opt"), ("saturating_add", "val"), ("saturating_sub", "val"),
             ("strict_add", "val"), ("strict_sub", "val"), ("add", "val"), ("sub", "val")]
MIXED = {  # method -> (owner signedness, rhs signedness)
    "overflowing_add_signed": (False, True, "pair"), "wrapping_add_signed": (False, True, "val"), "checked_add_signed": (False, True, "opt"),
    "saturating_add_signed": (False, True, "val"),
    "overflowing_add_unsigned": (True, False, "pair"), "wrapping_add_unsigned": (True, False, "val"), "checked_add_unsigned": (True, False, "opt"),
    "saturating_add_unsigned": (True, False, "val"),
    "overflowing_sub_unsigned": (True, False, "pair"), "wrapping_sub_unsigned": (True, False, "val"), "checked_sub_unsigned": (True, False, "opt"),
    "saturating_sub_unsigned": (True, False, "val"),
}


def chain_req(A, form, n, labels=("a", "b"), extra=()):
    """digit k of the result varies with digits j <= k of every operand; the flag / discriminant with every digit"""
    vp, fp = ret_forms(A, form)
    req = []
    for k in range(n):
        need = set(extra)
        for l in labels:
            need |= lab(l, range(k + 1))
        req.append((vp + dig_path(A) + (k,), need, "digit %d of the result" % k))
    if fp is not None:
        need = set(extra)
        for l in labels:
            need |= lab(l, range(n))
        req.append((fp, need, "the overflow flag" if form == "pair" else "the Some/None decision"))
    return req


def c01(K, Ns):
    out = []
    for A in ADTS:
        sg = is_signed(A)
        for n in Ns:
            sh = {"N": n}
            for m, form in ADD_FORMS:
                fid = inh(A, m)
                if not exists(K, fid):
                    continue
                out.append(row(K, "C01", fid, "N%d" % n, sh, [val_of(A, "a"), val_of(A, "b")], chain_req(A, form, n), n))
            for m, (osg, rsg, form) in MIXED.items():
                if osg != sg:
                    continue
                fid = inh(A, m)
                if not exists(K, fid):
                    continue
                R = TWIN[A]
                out.append(row(K, "C01", fid, "N%d" % n, sh, [val_of(A, "a"), val_of(R, "b")], chain_req(A, form, n), n))
            for m in ("carrying_add", "borrowing_sub"):
                fid = inh(A, m)
                if exists(K, fid):
                    out.append(row(K, "C01", fid, "N%d" % n, sh, [val_of(A, "a"), val_of(A, "b"), ("p", "cin", "bool")],
                                   chain_req(A, "pair", n, extra=("cin",)), n))
            negs = [("overflowing_neg", "pair"), ("wrapping_neg", "val")] + ([("checked_neg", "opt"), ("neg", "val"), ("strict_neg", "val"), ("saturating_neg", "val")] if sg else [])
            for m, form in negs:
                fid = inh(A, m)
                if exists(K, fid):
                    out.append(row(K, "C01", fid, "N%d" % n, sh, [val_of(A, "a")], chain_req(A, form, n, labels=("a",)), n))
            if not sg:
                fid = inh(A, "checked_neg")
                if exists(K, fid):
                    out.append(row(K, "C01", fid, "N%d" % n, sh, [val_of(A, "a")], [(("discr",), lab("a", range(n)), "the Some/None decision")], n))
            if sg:
                U = TWIN[A]
                for m, form, RA in (("wrapping_abs", "val", A), ("overflowing_abs", "pair", A), ("checked_abs", "opt", A), ("saturating_abs", "val", A),
                                    ("abs", "val", A), ("unsigned_abs", "val", U)):
                    fid = inh(A, m)
                    if not exists(K, fid):
                        continue
                    vp, fp = ret_forms(RA, form)
                    req = [(vp + dig_path(RA) + (k,), lab("a", range(k + 1)) | lab("a", [n - 1]), "digit %d of the result" % k) for k in range(n)]
                    if fp is not None:
                        req.append((fp, lab("a", range(n)), "the flag / decision"))
                    out.append(row(K, "C01", fid, "N%d" % n, sh, [val_of(A, "a")], req, n))
            fid = inh(A, "abs_diff")
            if exists(K, fid):
                RA = TWIN[A] if sg else A
                out.append(row(K, "C01", fid, "N%d" % n, sh, [val_of(A, "a"), val_of(A, "b")],
                               [(dig_path(RA) + (k,), lab("a", range(k + 1)) | lab("b", range(k + 1)), "digit %d of the result" % k) for k in range(n)], n))
            fid = inh(A, "midpoint")
            if exists(K, fid):
                out.append(row(K, "C01", fid, "N%d" % n, sh, [val_of(A, "a"), val_of(A, "b")],
                               [(dig_path(A) + (k,), lab("a", range(min(k + 2, n))) | lab("b", range(min(k + 2, n))), "digit %d of the result" % k) for k in range(n)], n))
    return out


# ------------------------------------------------------------------------------------------------ C02
def c02(K, Ns):
    out = []
    for A in ADTS:
        sg = is_signed(A)
        for n in Ns:
            sh = {"N": n}
            for m, form in (("overflowing_mul", "pair"), ("wrapping_mul", "val"), ("checked_mul", "opt"), ("saturating_mul", "val"), ("strict_mul", "val"), ("mul", "val")):
                fid = inh(A, m)
                if exists(K, fid):
                    out.append(row(K, "C02", fid, "N%d" % n, sh, [val_of(A, "a"), val_of(A, "b")], chain_req(A, form, n), n))
            if not sg:
                allab = lab("a", range(n)) | lab("b", range(n))
                fid = inh(A, "long_mul")
                out.append(row(K, "C02", fid, "N%d" % n, sh, [val_of(A, "a"), val_of(A, "b")], chain_req(A, "pair", n), n, soft=True))
                fid = inh(A, "widening_mul")
                if exists(K, fid):
                    req = [((0,) + dig_path(A) + (k,), lab("a", range(k + 1)) | lab("b", range(k + 1)), "digit %d of the low half" % k) for k in range(n)]
                    req += [((1,) + dig_path(A) + (k,), lab("a", range(k, n)) | lab("b", range(k, n)), "digit %d of the high half" % k) for k in range(n)]
                    out.append(row(K, "C02", fid, "N%d" % n, sh, [val_of(A, "a"), val_of(A, "b")], req, n))
                fid = inh(A, "carrying_mul")
                if exists(K, fid):
                    req = [((0,) + dig_path(A) + (k,), lab("a", range(k + 1)) | lab("b", range(k + 1)) | lab("c", range(k + 1)), "digit %d of the low half" % k) for k in range(n)]
                    req += [((1,) + dig_path(A) + (k,), lab("a", range(k, n)) | lab("b", range(k, n)), "digit %d of the high half" % k) for k in range(n)]
                    out.append(row(K, "C02", fid, "N%d" % n, sh, [val_of(A, "a"), val_of(A, "b"), val_of(A, "c")], req, n))
    return out


# ------------------------------------------------------------------------------------------------ C03
def c03(K, Ns):
    out = []
    for A in UNSIGNED:
        for n in Ns:
            sh = {"N": n}
            alla, allb = lab("a", range(n)), lab("b", range(n))
            for m, form, what in (("wrapping_div", "val", "q"), ("checked_div", "opt", "q"), ("div_euclid", "val", "q"), ("overflowing_div", "pair", "q"),
                                  ("wrapping_rem", "val", "r"), ("checked_rem", "opt", "r"), ("rem_euclid", "val", "r"), ("overflowing_rem", "pair", "r")):
                fid = inh(A, m)
                if not exists(K, fid):
                    continue
                vp, fp = ret_forms(A, form)
                if what == "q":
                    req = [(vp + dig_path(A) + (k,), lab("a", range(k, n)) | allb, "digit %d of the quotient" % k) for k in range(n)]
                else:
                    req = [(vp + dig_path(A) + (0,), alla | allb, "digit 0 of the remainder")]
                if form == "opt":
                    req.append((fp, allb, "the Some/None decision"))
                out.append(row(K, "C03", fid, "N%d" % n, sh, [val_of(A, "a"), val_of(A, "b")], req, n))
    return out


# ------------------------------------------------------------------------------------------------ C05
def amounts(n, db):
    bits = n * db
    c = [0, 1, db - 1, db, db + 1, bits - db, bits - 1]
    return sorted({s for s in c if 0 <= s < bits})


def c05(K, Ns):
    out = []
    for A in ADTS:
        sg = is_signed(A)
        db = db_of(A)
        for n in Ns:
            sh = {"N": n}
            for s in amounts(n, db):
                q, r = divmod(s, db)
                # left shifts
                for m, form in (("checked_shl", "opt"), ("wrapping_shl", "val"), ("overflowing_shl", "pair"), ("unbounded_shl", "val"), ("strict_shl", "val"), ("shl", "val")):
                    fid = inh(A, m)
                    if not exists(K, fid):
                        continue
                    vp, _fp = ret_forms(A, form)
                    req = []
                    for k in range(q, n):
                        need = lab("a", [k - q]) | (lab("a", [k - q - 1]) if r and k - q - 1 >= 0 else set())
                        req.append((vp + dig_path(A) + (k,), need, "digit %d of the result" % k))
                    out.append(row(K, "C05", fid, "N%d_s%d" % (n, s), sh, [val_of(A, "a"), ("c", s, "u32")], req, n))
                for m, form in (("checked_shr", "opt"), ("wrapping_shr", "val"), ("overflowing_shr", "pair"), ("unbounded_shr", "val"), ("strict_shr", "val"), ("shr", "val")):
                    fid = inh(A, m)
                    if not exists(K, fid):
                        continue
                    vp, _fp = ret_forms(A, form)
                    req = []
                    for k in range(n):
                        need = set()
                        if k + q < n:
                            need |= lab("a", [k + q])
                            if r and k + q + 1 < n:
                                need |= lab("a", [k + q + 1])
                        if sg and (k + q + 1 >= n) and (r or k + q >= n):
                            need |= lab("a", [n - 1])          # sign fill
                        if need:
                            req.append((vp + dig_path(A) + (k,), need, "digit %d of the result" % k))
                    out.append(row(K, "C05", fid, "N%d_s%d" % (n, s), sh, [val_of(A, "a"), ("c", s, "u32")], req, n))
                for m, left in (("rotate_left", True), ("rotate_right", False)):
                    fid = inh(A, m)
                    if not exists(K, fid):
                        continue
                    req = []
                    for k in range(n):
                        if left:
                            need = lab("a", [(k - q) % n]) | (lab("a", [(k - q - 1) % n]) if r else set())
                        else:
                            need = lab("a", [(k + q) % n]) | (lab("a", [(k + q + 1) % n]) if r else set())
                        req.append((dig_path(A) + (k,), need, "digit %d of the result" % k))
                    out.append(row(K, "C05", fid, "N%d_s%d" % (n, s), sh, [val_of(A, "a"), ("c", s, "u32")], req, n))
    return out


# ------------------------------------------------------------------------------------------------ C06
def c06(K, Ns):
    out = []
    for A in ADTS:
        sg = is_signed(A)
        db = db_of(A)
        for n in Ns:
            sh = {"N": n}
            alla = lab("a", range(n))
            for m in ("bitand", "bitor", "bitxor"):
                fid = inh(A, m)
                if exists(K, fid):
                    out.append(row(K, "C06", fid, "N%d" % n, sh, [val_of(A, "a"), val_of(A, "b")],
                                   [(dig_path(A) + (k,), lab("a", [k]) | lab("b", [k]), "digit %d of the result" % k) for k in range(n)], n))
            fid = inh(A, "not")
            if exists(K, fid):
                out.append(row(K, "C06", fid, "N%d" % n, sh, [val_of(A, "a")], [(dig_path(A) + (k,), lab("a", [k]), "digit %d of the result" % k) for k in range(n)], n))
            for m in ("count_ones", "count_zeros", "leading_zeros", "trailing_zeros", "leading_ones", "trailing_ones", "is_power_of_two", "is_zero", "bits", "is_one"):
                fid = inh(A, m)
                if exists(K, fid):
                    out.append(row(K, "C06", fid, "N%d" % n, sh, [val_of(A, "a")], [((), alla, "the result")], n))
            for m in ("swap_bytes", "reverse_bits"):
                fid = inh(A, m)
                if exists(K, fid):
                    out.append(row(K, "C06", fid, "N%d" % n, sh, [val_of(A, "a")], [(dig_path(A) + (k,), lab("a", [n - 1 - k]), "digit %d of the result" % k) for k in range(n)], n))
            for idx in sorted({0, db - 1, db, n * db - 1} & set(range(n * db))):
                fid = inh(A, "bit")
                if exists(K, fid):
                    out.append(row(K, "C06", fid, "N%d_i%d" % (n, idx), sh, [val_of(A, "a"), ("c", idx, "u32")], [((), lab("a", [idx // db]), "the result")], n))
                fid = inh(A, "set_bit")
                if exists(K, fid):
                    req = [(dig_path(A) + (k,), lab("a", [k]) | ({"v"} if k == idx // db else set()), "digit %d afterwards" % k) for k in range(n)]
                    out.append(row(K, "C06", fid, "N%d_i%d" % (n, idx), sh, [val_of(A, "a"), ("c", idx, "u32"), ("p", "v", "bool")], req, n, by_ref_out=True))
            for m, form in (("checked_next_power_of_two", "opt"), ("wrapping_next_power_of_two", "val"), ("next_power_of_two", "val")):
                fid = inh(A, m)
                if exists(K, fid) and not sg:
                    vp, fp = ret_forms(A, form)
                    # digit k of the next power of two is set or not depending on every digit at or above k and on whether any lower digit is non-zero
                    req = [(vp + dig_path(A) + (k,), alla, "digit %d of the result" % k) for k in range(n)]
                    out.append(row(K, "C06", fid, "N%d" % n, sh, [val_of(A, "a")], req, n))
    return out


# ------------------------------------------------------------------------------------------------ C07
def c07(K, Ns):
    out = []
    for A in ADTS:
        sg = is_signed(A)
        for n in Ns:
            sh = {"N": n}
            both = lab("a", range(n)) | lab("b", range(n))
            for m in ("eq", "ne", "lt", "le", "gt", "ge", "cmp"):
                fid = inh(A, m)
                if exists(K, fid):
                    out.append(row(K, "C07", fid, "N%d" % n, sh, [val_of(A, "a"), val_of(A, "b")], [((), both, "the result")], n))
            for trait, m in (("core::cmp::PartialEq", "eq"), ("core::cmp::PartialEq", "ne"), ("core::cmp::Ord", "cmp"), ("core::cmp::PartialOrd", "partial_cmp"),
                             ("core::cmp::PartialOrd", "lt"), ("core::cmp::PartialOrd", "le"), ("core::cmp::PartialOrd", "gt"), ("core::cmp::PartialOrd", "ge")):
                fid = tr(A, trait, [], m)
                if exists(K, fid):
                    out.append(row(K, "C07", fid, "N%d" % n, sh, [val_of(A, "a"), val_of(A, "b")], [((), both, "the result")], n))
            # digit k of max / min / clamp: which operand is selected is decided by the most significant digit that differs, so
            # (when digit k differs) only digits at or above k can matter
            def upper(k, labels):
                r_ = set()
                for l_ in labels:
                    r_ |= lab(l_, range(k, n))
                return r_
            for m in ("max", "min"):
                fid = inh(A, m)
                if exists(K, fid):
                    out.append(row(K, "C07", fid, "N%d" % n, sh, [val_of(A, "a"), val_of(A, "b")],
                                   [(dig_path(A) + (k,), upper(k, "ab"), "digit %d of the result" % k) for k in range(n)], n))
                fid = tr(A, "core::cmp::Ord", [], m)
                if exists(K, fid):
                    out.append(row(K, "C07", fid, "N%d" % n, sh, [val_of(A, "a"), val_of(A, "b")],
                                   [(dig_path(A) + (k,), upper(k, "ab"), "digit %d of the result" % k) for k in range(n)], n))
            fid = inh(A, "clamp")
            if exists(K, fid):
                out.append(row(K, "C07", fid, "N%d" % n, sh, [val_of(A, "a"), val_of(A, "b"), val_of(A, "c")],
                               [(dig_path(A) + (k,), upper(k, "abc"), "digit %d of the result" % k) for k in range(n)], n))
            if sg:
                alla = lab("a", range(n))
                for m, need in (("is_negative", lab("a", [n - 1])), ("is_positive", alla), ("signum", alla)):
                    fid = inh(A, m)
                    if exists(K, fid):
                        if m == "signum":
                            # digit 0 tells -1 / 0 / 1 apart (every digit matters for "is zero"); higher digits only carry the sign
                            req = [(dig_path(A) + (k,), alla if k == 0 else lab("a", [n - 1]), "digit %d of the result" % k) for k in range(n)]
                        else:
                            req = [((), need, "the result")]
                        out.append(row(K, "C07", fid, "N%d" % n, sh, [val_of(A, "a")], req, n))
    return out


# ------------------------------------------------------------------------------------------------ C08
def c08(K, Ns):
    out = []
    for A in ADTS:
        for n in Ns:
            sh = {"N": n}
            for e in (1, 2, 3, 5, 1 << 31):
                for m, form in (("pow", "val"), ("wrapping_pow", "val"), ("checked_pow", "opt"), ("overflowing_pow", "pair"), ("saturating_pow", "val"), ("strict_pow", "val")):
                    fid = inh(A, m)
                    if not exists(K, fid):
                        continue
                    if e == 1 << 31 and m not in ("wrapping_pow", "overflowing_pow"):
                        continue            # the other forms overflow for every base but 0, 1, -1
                    vp, fp = ret_forms(A, form)
                    if e == 1:
                        # a^1 = a: digit k varies with digit k (and with nothing else)
                        req = [(vp + dig_path(A) + (k,), lab("a", [k]), "digit %d of the power" % k) for k in range(n)]
                    elif e == 1 << 31:
                        # a huge power of two as exponent: the low bits of the result are constant for odd bases (the unit group
                        # of 2^BITS has exponent 2^(BITS-2)), so no dependence is required; the row decides totality only
                        req = []
                    else:
                        # e in {2, 3, 5}: digit k of a^e varies with digits j <= k of a (the cross terms e * a_0^(e-1) * a_k * B^k);
                        # whether a^e overflows varies with every digit
                        wraps = m in ("wrapping_pow", "overflowing_pow") or (m == "pow" and not K.debug)
                        # a form that returns a value only when a^e fits can only see base digits j with j * e < n
                        js = (lambda k: range(k + 1)) if wraps else (lambda k: [j for j in range(k + 1) if j * e < n and k < (j + 1) * e])
                        req = [(vp + dig_path(A) + (k,), lab("a", js(k)), "digit %d of the power" % k) for k in range(n) if js(k)]
                        if m == "saturating_pow":
                            req = [(vp + dig_path(A) + (k,), lab("a", range(n)), "digit %d of the (possibly saturated) power" % k) for k in range(n)] if False else req
                        if fp is not None:
                            # a non-zero digit j with j * e >= n forces the power out of range (and the all-smaller bases fit), so the
                            # flag certainly varies with those digits; the digits around the exact threshold 2^(BITS/e) matter too, but
                            # whether the lowest ones do depends on e and n (a^2 overflows iff a >= 2^(BITS/2): digit-aligned for even n)
                            hi_d = [j for j in range(n) if j * e >= n]
                            if hi_d:
                                req.append((fp, lab("a", hi_d), "the overflow flag / decision"))
                    out.append(row(K, "C08", fid, "N%d_e%d" % (n, e), sh, [val_of(A, "a"), ("c", e, "u32")], req, n))
    return out


# ------------------------------------------------------------------------------------------------ C10
def c10(K, Ns):
    out = []
    for A in ADTS:
        for n in Ns:
            sh = {"N": n}
            nbytes = n * db_of(A) // 8
            for L in sorted({1, nbytes, nbytes + 1, nbytes + 2}):
                for m, be in (("from_radix_be", True), ("from_radix_le", False)):
                    fid = inh(A, m)
                    if not exists(K, fid):
                        continue
                    # radix 256: the numerals are the bytes of the value; every byte beyond the width decides Some/None
                    req = [((("some",), 0) + dig_path(A) + (0,), {"s[%d]" % (L - 1 if be else 0)}, "digit 0 of the value")]
                    if L > nbytes:
                        req.append((("discr",), {"s[%d]" % ((L - 1 - b) if be else b) for b in range(nbytes, L)}, "the Some/None decision"))
                    out.append(row(K, "C10", fid, "N%d_r256_L%d" % (n, L), sh, [("bytes", "s", L), ("c", 256, "u32")], req, n))
            # the string parsers, with the first character fixed (whether there is a sign decides the trip counts of the loops):
            # every other character can make the text invalid, and digit 0 of the value varies with the characters whose weight
            # radix^i is neither a multiple of 2^w nor beyond the type
            sgA = is_signed(A)
            for r in (10, 16):
                for L in ((2, 6) if n <= 3 else ()):
                    for first in ([ord("7") if r > 7 else ord("1"), ord("0"), ord("+")] + ([ord("-")] if sgA else [])):
                        for fid, with_radix in ((inh(A, "from_str_radix"), True), (tr(A, "core::str::FromStr", [], "from_str"), False)):
                            if not with_radix and r != 10:
                                continue
                            if not exists(K, fid):
                                continue
                            var = list(range(1, L))
                            dbits = db_of(A)
                            bits_ = n * dbits - (1 if sgA else 0)
                            sig = [p_ for p_ in var if (r ** (L - 1 - p_)) % (1 << dbits) != 0 and (r ** (L - 1 - p_)) < (1 << bits_)]
                            fits = True
                            if first in (ord("7"), ord("1")):
                                # a leading non-zero digit: the text can only be accepted when its weight alone fits the type; a text
                                # that is necessarily too long is refused whatever follows (the statement fixes the kind only for
                                # texts too short to overflow)
                                fits = (first - 48) * r ** (L - 1) < (1 << bits_)
                            if not fits:
                                continue
                            req = [(("discr",), {"s[%d]" % p_ for p_ in var}, "the Ok/Err decision")]
                            if sig:
                                req.append(((("ok",), 0) + dig_path(A) + (0,), {"s[%d]" % p_ for p_ in sig}, "digit 0 of the value"))
                            conts = [("text", "s", L, first)] + ([("c", r, "u32")] if with_radix else [])
                            out.append(row(K, "C10", fid, "N%d_r%d_L%d_%s" % (n, r, L, {48: "zero", 43: "plus", 45: "minus"}.get(first, "digit")), sh, conts, req, n))
            for r in (2, 3, 10, 16, 36, 200):
                for L in (1, 2, 5, 11):
                    for m, be in (("from_radix_be", True), ("from_radix_le", False)):
                        fid = inh(A, m)
                        if not exists(K, fid):
                            continue
                        allb = {"s[%d]" % j for j in range(L)}
                        # every numeral can make the input invalid; digit 0 of the value (its low `db` bits) varies with the
                        # numeral of significance i exactly when radix^i is not a multiple of 2^db
                        dbits = db_of(A)
                        sig = [i for i in range(L) if (r ** i) % (1 << dbits) != 0 and (r ** i) < (1 << (n * dbits - (1 if is_signed(A) and False else 0)))]
                        low = {"s[%d]" % ((L - 1 - i) if be else i) for i in sig}
                        req = [(("discr",), allb, "the Some/None decision"),
                               ((("some",), 0) + dig_path(A) + (0,), low, "digit 0 of the value")]
                        out.append(row(K, "C10", fid, "N%d_r%d_L%d" % (n, r, L), sh, [("bytes", "s", L), ("c", r, "u32")], req, n))
    return out


# ------------------------------------------------------------------------------------------------ C09 / C13 / C19 (conversions)
def overlap_src_digits(k, dbo, dbi, nsrc):
    """source digits whose bits overlap output digit k"""
    lo, hi = k * dbo, (k + 1) * dbo - 1
    return [j for j in range(nsrc) if not (j * dbi + dbi - 1 < lo or j * dbi > hi)]


def c09(K, Ns, pairs):
    out = []
    F = K.F
    # reinterpretations
    for A in ADTS:
        sg = is_signed(A)
        for n in Ns:
            sh = {"N": n}
            for m, RA in (("cast_signed", TWIN[A]) if not sg else ("cast_unsigned", TWIN[A]), ("to_bits", TWIN[A]) if sg else ("from_bits_", None)):
                if RA is None:
                    continue
                fid = inh(A, m)
                if exists(K, fid):
                    out.append(row(K, "C09", fid, "N%d" % n, sh, [val_of(A, "a")], [(dig_path(RA) + (k,), lab("a", [k]), "digit %d of the result" % k) for k in range(n)], n))
            if sg:
                fid = inh(A, "from_bits")
                if exists(K, fid):
                    out.append(row(K, "C09", fid, "N%d" % n, sh, [val_of(TWIN[A], "a")], [(dig_path(A) + (k,), lab("a", [k]), "digit %d of the result" % k) for k in range(n)], n))
    # bnum -> bnum casts at (N, M): target has N digits, source M digits
    for T in ADTS:
        for Sx in ADTS:
            fid = "<%s<N> as cast::CastFrom<%s<M>>>::cast_from" % (T, Sx)
            if not exists(K, fid):
                continue
            dbo, dbi = db_of(T), db_of(Sx)
            for (n, m) in pairs:
                sh = {"N": n, "M": m}
                req = []
                for k in range(n):
                    src = overlap_src_digits(k, dbo, dbi, m)
                    need = lab("a", src)
                    if is_signed(Sx) and (k + 1) * dbo > m * dbi:
                        need |= lab("a", [m - 1])         # sign extension
                    if need:
                        req.append((dig_path(T) + (k,), need, "digit %d of the result" % k))
                out.append(row(K, "C09", fid, "N%d_M%d" % (n, m), sh, [val_of(Sx, "a", m)], req, n))
    # primitive <-> bnum
    for A in ADTS:
        db = db_of(A)
        for n in Ns:
            sh = {"N": n}
            for p in PRIM_INTS:
                pb = PBITS[p]
                fid = "<%s<N> as cast::CastFrom<%s>>::cast_from" % (A, p)
                if exists(K, fid):
                    req = []
                    for k in range(n):
                        if k * db < pb or p.startswith("i"):
                            req.append((dig_path(A) + (k,), {"p"}, "digit %d of the result" % k))
                    out.append(row(K, "C09", fid, "N%d" % n, sh, [("p", "p", p)], req, n))
                fid = "<%s as cast::CastFrom<%s<N>>>::cast_from" % (p, A)
                if exists(K, fid):
                    need = lab("a", range(min(n, -(-pb // db))))
                    out.append(row(K, "C09", fid, "N%d" % n, sh, [val_of(A, "a")], [((), need, "the result")], n))
            for p in ("bool", "char"):
                fid = "<%s<N> as cast::CastFrom<%s>>::cast_from" % (A, p)
                if exists(K, fid):
                    out.append(row(K, "C09", fid, "N%d" % n, sh, [("p", "p", p)], [(dig_path(A) + (0,), {"p"}, "digit 0 of the result")], n))
    return out



def decision_digits(src_signed, n, db, tgt_signed, tbits, label="a"):
    """digits of an n-digit source whose value decides whether it fits a target of tbits bits"""
    t = tbits - 1 if tgt_signed else tbits
    need = {j for j in range(n) if (j + 1) * db > t}
    if src_signed and not tgt_signed:
        need.add(n - 1)
    if not src_signed and n * db <= t:
        need = set()
    if src_signed and tgt_signed and n * db <= tbits:
        need = set()
    return lab(label, need)


def c13(K, Ns, pairs):
    out = []
    for A in ADTS:
        sg = is_signed(A)
        db = db_of(A)
        for n in Ns:
            sh = {"N": n}
            alla = lab("a", range(n))
            for p in PRIM_INTS:
                pb = PBITS[p]
                fid = "<%s as core::convert::TryFrom<%s<N>>>::try_from" % (p, A)
                if exists(K, fid):
                    req = [((("ok",), 0), lab("a", range(min(n, -(-pb // db)))), "the converted value")]
                    dd = decision_digits(sg, n, db, p.startswith("i"), pb)
                    if dd:
                        req.append((("discr",), dd, "the Ok/Err decision"))
                    out.append(row(K, "C13", fid, "N%d" % n, sh, [val_of(A, "a")], req, n))
                fid = "<%s<N> as core::convert::TryFrom<%s>>::try_from" % (A, p)
                if exists(K, fid) and n * db >= pb:
                    req = [((("ok",), 0) + dig_path(A) + (k,), {"p"}, "digit %d of the converted value" % k) for k in range(n) if k * db < pb]
                    if not sg and p.startswith("i"):
                        req.append((("discr",), {"p"}, "the Ok/Err decision"))
                    out.append(row(K, "C13", fid, "N%d" % n, sh, [("p", "p", p)], req, n))
                fid = "<%s<N> as core::convert::From<%s>>::from" % (A, p)
                if exists(K, fid) and n * db >= pb and not (sg and p.startswith("u") and n * db == pb):
                    req = [(dig_path(A) + (k,), {"p"}, "digit %d of the result" % k) for k in range(n) if k * db < pb or (p.startswith("i") and sg)]
                    out.append(row(K, "C13", fid, "N%d" % n, sh, [("p", "p", p)], req, n))
            fid = inh(A, "from_digits")
            if exists(K, fid):
                out.append(row(K, "C13", fid, "N%d" % n, sh, [("digs", "a", n)], [(dig_path(A) + (k,), lab("a", [k]), "digit %d" % k) for k in range(n)], n))
            fid = inh(A, "from_digit")
            if exists(K, fid):
                out.append(row(K, "C13", fid, "N%d" % n, sh, [("p", "p", DIGIT[A])], [(dig_path(A) + (0,), {"p"}, "digit 0")], n))
    # BTryFrom at (N, M)
    for T in ADTS:
        for Sx in ADTS:
            fid = "<%s<N> as cast::BTryFrom<%s<M>>>::try_from" % (T, Sx)
            if not exists(K, fid):
                fid = "<%s<N> as BTryFrom<%s<M>>>::try_from" % (T, Sx)
                if not exists(K, fid):
                    continue
            dbo, dbi = db_of(T), db_of(Sx)
            for (n, m) in pairs:
                sh = {"N": n, "M": m}
                req = []
                for k in range(n):
                    src = overlap_src_digits(k, dbo, dbi, m)
                    if src:
                        req.append(((("ok",), 0) + dig_path(T) + (k,), lab("a", src), "digit %d of the converted value" % k))
                need = decision_digits(is_signed(Sx), m, dbi, is_signed(T), n * dbo)
                if need:
                    req.append((("discr",), need, "the Ok/Err decision"))
                out.append(row(K, "C13", fid, "N%d_M%d" % (n, m), sh, [val_of(Sx, "a", m)], req, n))
    return out


def c14(K, Ns):
    out = []
    for A in ADTS:
        for n in Ns:
            sh = {"N": n}
            for f in ("f32", "f64"):
                fid = "<%s as cast::CastFrom<%s<N>>>::cast_from" % (f, A)
                if exists(K, fid):
                    out.append(row(K, "C14", fid, "N%d" % n, sh, [val_of(A, "a")], [((), lab("a", range(n)), "the float")], n))
                fid = "<%s<N> as cast::CastFrom<%s>>::cast_from" % (A, f)
                if exists(K, fid):
                    out.append(row(K, "C14", fid, "N%d" % n, sh, [("p", "f", f)], [(dig_path(A) + (k,), {"f"}, "digit %d of the result" % k) for k in range(n)], n))
    return out


def c19(K, Ns):
    out = []
    for A in ADTS:
        sg = is_signed(A)
        db = db_of(A)
        for n in Ns:
            sh = {"N": n}
            alla = lab("a", range(n))
            for p in PRIM_INTS:
                pb = PBITS[p]
                fid = tr(A, "num_traits::ToPrimitive", [], "to_" + p)
                if exists(K, fid):
                    req = [((("some",), 0), lab("a", range(min(n, -(-pb // db)))), "the converted value")]
                    dd = decision_digits(sg, n, db, p.startswith("i"), pb)
                    if dd:
                        req.append((("discr",), dd, "the Some/None decision"))
                    out.append(row(K, "C19", fid, "N%d" % n, sh, [val_of(A, "a")], req, n))
                fid = tr(A, "num_traits::FromPrimitive", [], "from_" + p)
                if exists(K, fid):
                    req = [((("some",), 0) + dig_path(A) + (k,), {"p"}, "digit %d of the converted value" % k) for k in range(n) if k * db < pb]
                    if (not sg and p.startswith("i")) or pb > n * db:
                        req.append((("discr",), {"p"}, "the Some/None decision"))
                    out.append(row(K, "C19", fid, "N%d" % n, sh, [("p", "p", p)], req, n))
            for f in ("f32", "f64"):
                fid = tr(A, "num_traits::ToPrimitive", [], "to_" + f)
                if exists(K, fid):
                    out.append(row(K, "C19", fid, "N%d" % n, sh, [val_of(A, "a")], [((("some",), 0), alla, "the float")], n))
                fid = tr(A, "num_traits::FromPrimitive", [], "from_" + f)
                if exists(K, fid):
                    req = [((("some",), 0) + dig_path(A) + (k,), {"f"}, "digit %d of the converted value" % k) for k in range(n)] + [(("discr",), {"f"}, "the Some/None decision")]
                    out.append(row(K, "C19", fid, "N%d" % n, sh, [("p", "f", f)], req, n))
    return out


# ------------------------------------------------------------------------------------------------ C15
def c15(K, Ns):
    out = []
    for A in ADTS:
        sg = is_signed(A)
        db = db_of(A)
        dby = db // 8
        for n in Ns:
            sh = {"N": n}
            nbytes = n * dby
            lens = sorted({0, 1, dby, dby + 1, nbytes - 1, nbytes, nbytes + 1, nbytes + dby, nbytes + dby + 1} - {-1})
            for L in lens:
                if L < 0:
                    continue
                for m, be in (("from_be_slice", True), ("from_le_slice", False)):
                    fid = inh(A, m)
                    if not exists(K, fid):
                        continue
                    req = []
                    used = min(L, nbytes)
                    for k in range(n):
                        # value bytes (little-endian significance order) k*dby .. (k+1)*dby-1 that exist in the slice
                        sig = [b for b in range(k * dby, (k + 1) * dby) if b < used]
                        idx = [(L - 1 - b) if be else b for b in sig]
                        need = {"s[%d]" % i for i in idx}
                        if sg and L > 0 and (k + 1) * dby > L:
                            need.add("s[%d]" % (0 if be else L - 1))       # sign extension from the most significant byte
                        if need:
                            req.append(((("some",), 0) + dig_path(A) + (k,), need, "digit %d of the value" % k))
                    if L > nbytes:
                        exc = [(L - 1 - b) if be else b for b in range(nbytes, L)]
                        need = {"s[%d]" % i for i in exc}
                        if sg:
                            need.add("s[%d]" % ((L - nbytes) if be else nbytes - 1))   # the retained top byte must carry the same sign
                        req.append((("discr",), need, "the Some/None decision"))
                    out.append(row(K, "C15", fid, "N%d_L%d" % (n, L), sh, [("bytes", "s", L)], req, n))
            for m in ("to_be", "from_be"):
                fid = inh(A, m)
                if exists(K, fid):
                    out.append(row(K, "C15", fid, "N%d" % n, sh, [val_of(A, "a")], [(dig_path(A) + (k,), lab("a", [n - 1 - k]), "digit %d of the result" % k) for k in range(n)], n))
            for m in ("to_le", "from_le"):
                fid = inh(A, m)
                if exists(K, fid):
                    out.append(row(K, "C15", fid, "N%d" % n, sh, [val_of(A, "a")], [(dig_path(A) + (k,), lab("a", [k]), "digit %d of the result" % k) for k in range(n)], n))
    return out


def c15_nightly(K, Ns):
    """the nightly-only byte-array forms (configuration Kdn): byte b of the output with the digit that holds it, and back"""
    out = []
    for A in ADTS:
        dby = db_of(A) // 8
        for n in Ns:
            sh = {"N": n}
            nb = n * dby
            for m, be in (("to_be_bytes", True), ("to_le_bytes", False), ("to_ne_bytes", False)):
                fid = inh(A, m)
                if exists(K, fid):
                    req = [((b,), lab("a", [((nb - 1 - b) if be else b) // dby]), "byte %d of the output" % b) for b in range(nb)]
                    out.append(row(K, "C15", fid, "N%d" % n, sh, [val_of(A, "a")], req, n))
            for m, be in (("from_be_bytes", True), ("from_le_bytes", False), ("from_ne_bytes", False)):
                fid = inh(A, m)
                if exists(K, fid):
                    req = [(dig_path(A) + (k,), {"s[%d]" % ((nb - 1 - b) if be else b) for b in range(k * dby, (k + 1) * dby)}, "digit %d of the value" % k) for k in range(n)]
                    out.append(row(K, "C15", fid, "N%d" % n, sh, [("bytes", "s", nb)], req, n))
    return out


# ------------------------------------------------------------------------------------------------ C17
def c17(K, Ns):
    out = []
    for A in ADTS:
        sg = is_signed(A)
        db = db_of(A)
        D = DIGIT[A]
        for n in Ns:
            sh = {"N": n}
            for opn, m, kind in (("Add", "add", "chain"), ("Sub", "sub", "chain"), ("Mul", "mul", "chain"), ("BitAnd", "bitand", "lane"), ("BitOr", "bitor", "lane"), ("BitXor", "bitxor", "lane")):
                for selfref, rhsref in ((False, False), (True, False), (False, True), (True, True)):
                    s_ = ("&" if selfref else "") + A + "<N>"
                    r_ = ("&" if rhsref else "") + A + "<N>"
                    fid = "<%s as core::ops::%s<%s>>::%s" % (s_, opn, r_, m)
                    if not exists(K, fid):
                        continue
                    if kind == "chain":
                        req = chain_req(A, "val", n)
                    else:
                        req = [(dig_path(A) + (k,), lab("a", [k]) | lab("b", [k]), "digit %d of the result" % k) for k in range(n)]
                    out.append(row(K, "C17", fid, "N%d" % n, sh, [val_of(A, "a"), val_of(A, "b")], req, n))
                for rhsref in (False, True):
                    r_ = ("&" if rhsref else "") + A + "<N>"
                    fid = "<%s<N> as core::ops::%sAssign<%s>>::%s_assign" % (A, opn, r_, m)
                    if not exists(K, fid):
                        continue
                    if kind == "chain":
                        req = chain_req(A, "val", n)
                    else:
                        req = [(dig_path(A) + (k,), lab("a", [k]) | lab("b", [k]), "digit %d afterwards" % k) for k in range(n)]
                    out.append(row(K, "C17", fid, "N%d" % n, sh, [val_of(A, "a"), val_of(A, "b")], req, n, by_ref_out=True))
            for selfref in (False, True):
                s_ = ("&" if selfref else "") + A + "<N>"
                fid = "<%s as core::ops::Not>::not" % s_
                if exists(K, fid):
                    out.append(row(K, "C17", fid, "N%d" % n, sh, [val_of(A, "a")], [(dig_path(A) + (k,), lab("a", [k]), "digit %d of the result" % k) for k in range(n)], n))
                if sg:
                    fid = "<%s as core::ops::Neg>::neg" % s_
                    if exists(K, fid):
                        out.append(row(K, "C17", fid, "N%d" % n, sh, [val_of(A, "a")], chain_req(A, "val", n, labels=("a",)), n))
            if not sg:
                fid = "<%s<N> as core::ops::Add<%s>>::add" % (A, D)
                if exists(K, fid):
                    out.append(row(K, "C17", fid, "N%d" % n, sh, [val_of(A, "a"), ("p", "d", D)],
                                   [(dig_path(A) + (k,), lab("a", range(k + 1)) | {"d"}, "digit %d of the result" % k) for k in range(n)], n))
                fid = "<%s<N> as core::ops::Div<%s>>::div" % (A, D)
                if exists(K, fid):
                    out.append(row(K, "C17", fid, "N%d" % n, sh, [val_of(A, "a"), ("p", "d", D)],
                                   [(dig_path(A) + (k,), lab("a", range(k, n)) | {"d"}, "digit %d of the quotient" % k) for k in range(n)], n))
                fid = "<%s<N> as core::ops::Rem<%s>>::rem" % (A, D)
                if exists(K, fid):
                    out.append(row(K, "C17", fid, "N%d" % n, sh, [val_of(A, "a"), ("p", "d", D)], [((), lab("a", range(n)) | {"d"}, "the remainder")], n))
            # shift operators with typed primitive amounts (in range)
            for p in PRIM_INTS:
                for opn, m, left in (("Shl", "shl", True), ("Shr", "shr", False)):
                    fid = "<%s<N> as core::ops::%s<%s>>::%s" % (A, opn, p, m)
                    if not exists(K, fid):
                        continue
                    for s in amounts(n, db):
                        if s >= (1 << (PBITS[p] - (1 if p.startswith("i") else 0))):
                            continue
                        q, r = divmod(s, db)
                        req = []
                        for k in range(n):
                            need = set()
                            if left:
                                if k - q >= 0:
                                    need |= lab("a", [k - q])
                                    if r and k - q - 1 >= 0:
                                        need |= lab("a", [k - q - 1])
                            else:
                                if k + q < n:
                                    need |= lab("a", [k + q])
                                    if r and k + q + 1 < n:
                                        need |= lab("a", [k + q + 1])
                                if sg and (k + q + 1 >= n) and (r or k + q >= n):
                                    need |= lab("a", [n - 1])
                            if need:
                                req.append((dig_path(A) + (k,), need, "digit %d of the result" % k))
                        out.append(row(K, "C17", fid, "N%d_s%d" % (n, s), sh, [val_of(A, "a"), ("c", s, p)], req, n))
    return out


# ------------------------------------------------------------------------------------------------ C18 (num-traits / num-integer entry points)
def c18(K, Ns):
    out = []
    NT = "num_traits::"
    for A in ADTS:
        sg = is_signed(A)
        db = db_of(A)
        for n in Ns:
            sh = {"N": n}
            alla = lab("a", range(n))
            both = alla | lab("b", range(n))
            two = [val_of(A, "a"), val_of(A, "b")]
            one = [val_of(A, "a")]
            for trait, m, form in ((NT + "CheckedAdd", "checked_add", "opt"), (NT + "CheckedSub", "checked_sub", "opt"), (NT + "CheckedMul", "checked_mul", "opt"),
                                   (NT + "WrappingAdd", "wrapping_add", "val"), (NT + "WrappingSub", "wrapping_sub", "val"), (NT + "WrappingMul", "wrapping_mul", "val"),
                                   (NT + "SaturatingAdd", "saturating_add", "val"), (NT + "SaturatingSub", "saturating_sub", "val"), (NT + "SaturatingMul", "saturating_mul", "val"),
                                   (NT + "Saturating", "saturating_add", "val"), (NT + "Saturating", "saturating_sub", "val"),
                                   (NT + "ops::overflowing::OverflowingAdd", "overflowing_add", "pair"), (NT + "ops::overflowing::OverflowingSub", "overflowing_sub", "pair")):
                fid = tr(A, trait, [], m)
                if exists(K, fid):
                    out.append(row(K, "C18", fid, "N%d" % n, sh, two, chain_req(A, form, n), n))
            fid = tr(A, NT + "MulAdd", [], "mul_add")
            if exists(K, fid):
                out.append(row(K, "C18", fid, "N%d" % n, sh, two + [val_of(A, "c")], chain_req(A, "val", n, labels=("a", "b", "c")), n))
            for trait, m, form in ((NT + "WrappingNeg", "wrapping_neg", "val"), (NT + "CheckedNeg", "checked_neg", "opt")):
                fid = tr(A, trait, [], m)
                if exists(K, fid):
                    req = chain_req(A, form, n, labels=("a",)) if (sg or form == "val") else [(("discr",), alla, "the Some/None decision")]
                    out.append(row(K, "C18", fid, "N%d" % n, sh, one, req, n))
            for m in ("count_ones", "count_zeros", "leading_zeros", "trailing_zeros", "leading_ones", "trailing_ones"):
                fid = tr(A, NT + "PrimInt", [], m)
                if exists(K, fid):
                    out.append(row(K, "C18", fid, "N%d" % n, sh, one, [((), alla, "the count")], n))
            for trait, m in ((NT + "Zero", "is_zero"), (NT + "One", "is_one")):
                fid = tr(A, trait, [], m)
                if exists(K, fid):
                    out.append(row(K, "C18", fid, "N%d" % n, sh, one, [((), alla, "the result")], n))
            for m, rev in (("swap_bytes", True), ("reverse_bits", True), ("to_be", True), ("from_be", True), ("to_le", False), ("from_le", False)):
                fid = tr(A, NT + "PrimInt", [], m)
                if exists(K, fid):
                    out.append(row(K, "C18", fid, "N%d" % n, sh, one, [(dig_path(A) + (k,), lab("a", [n - 1 - k if rev else k]), "digit %d of the result" % k) for k in range(n)], n))
            for m in ("is_even", "is_odd"):
                fid = tr(A, "num_integer::Integer", [], m)
                if exists(K, fid):
                    out.append(row(K, "C18", fid, "N%d" % n, sh, one, [((), lab("a", [0]), "the result")], n))
            for s in amounts(n, db):
                q, r = divmod(s, db)
                for m, left in (("rotate_left", True), ("rotate_right", False)):
                    fid = tr(A, NT + "PrimInt", [], m)
                    if not exists(K, fid):
                        continue
                    req = []
                    for k in range(n):
                        if left:
                            need = lab("a", [(k - q) % n]) | (lab("a", [(k - q - 1) % n]) if r else set())
                        else:
                            need = lab("a", [(k + q) % n]) | (lab("a", [(k + q + 1) % n]) if r else set())
                        req.append((dig_path(A) + (k,), need, "digit %d of the result" % k))
                    out.append(row(K, "C18", fid, "N%d_s%d" % (n, s), sh, one + [("c", s, "u32")], req, n))
                for m, left, arith in (("unsigned_shl", True, False), ("signed_shl", True, False), ("unsigned_shr", False, False), ("signed_shr", False, True)):
                    fid = tr(A, NT + "PrimInt", [], m)
                    if not exists(K, fid):
                        continue
                    req = []
                    for k in range(n):
                        need = set()
                        if left:
                            if k - q >= 0:
                                need |= lab("a", [k - q])
                                if r and k - q - 1 >= 0:
                                    need |= lab("a", [k - q - 1])
                        else:
                            if k + q < n:
                                need |= lab("a", [k + q])
                                if r and k + q + 1 < n:
                                    need |= lab("a", [k + q + 1])
                            if arith and (k + q + 1 >= n) and (r or k + q >= n):
                                need |= lab("a", [n - 1])
                        if need:
                            req.append((dig_path(A) + (k,), need, "digit %d of the result" % k))
                    out.append(row(K, "C18", fid, "N%d_s%d" % (n, s), sh, one + [("c", s, "u32")], req, n))
            for e in (1, 2, 3, 5):
                fid = tr(A, NT + "PrimInt", [], "pow")
                if exists(K, fid):
                    js = (lambda k: [k]) if e == 1 else ((lambda k: range(k + 1)) if not K.debug else (lambda k: [j for j in range(k + 1) if j * e < n and k < (j + 1) * e]))
                    out.append(row(K, "C18", fid, "N%d_e%d" % (n, e), sh, one + [("c", e, "u32")],
                                   [(dig_path(A) + (k,), lab("a", js(k)), "digit %d of the power" % k) for k in range(n) if js(k)], n))
            if sg:
                for m, need in (("is_negative", lab("a", [n - 1])), ("is_positive", alla)):
                    fid = tr(A, NT + "Signed", [], m)
                    if exists(K, fid):
                        out.append(row(K, "C18", fid, "N%d" % n, sh, one, [((), need, "the result")], n))
                fid = tr(A, NT + "Signed", [], "signum")
                if exists(K, fid):
                    out.append(row(K, "C18", fid, "N%d" % n, sh, one, [(dig_path(A) + (k,), alla if k == 0 else lab("a", [n - 1]), "digit %d of the result" % k) for k in range(n)], n))
                fid = tr(A, NT + "Signed", [], "abs")
                if exists(K, fid):
                    out.append(row(K, "C18", fid, "N%d" % n, sh, one, [(dig_path(A) + (k,), lab("a", range(k + 1)) | lab("a", [n - 1]), "digit %d of the result" % k) for k in range(n)], n))
                fid = tr(A, NT + "Signed", [], "abs_sub")
                if exists(K, fid):
                    # max(a - b, 0): which side is taken varies with every digit of both
                    out.append(row(K, "C18", fid, "N%d" % n, sh, two, [(dig_path(A) + (k,), both, "digit %d of the result" % k) for k in range(n)], n))
    return out


# ------------------------------------------------------------------------------------------------ C20
def c20(K, Ns):
    out = []
    for A in ADTS:
        for n in Ns:
            sh = {"N": n}
            fid = "<rand::distributions::Standard as rand::distributions::Distribution<%s<N>>>::sample" % A
            if exists(K, fid):
                out.append(row(K, "C20", fid, "N%d" % n, sh, [("c", 0, None), ("rng",)],
                               [(dig_path(A) + (k,), {"rng"}, "digit %d of the sample" % k) for k in range(n)], n))
    return out



# ================================================================================================ byte-level rows
# The same rule at byte granularity: every operand digit carries one leaf per byte, the interpreter moves them through
# shifts, masks, casts, byte swaps and carries (analysis/deps.py, `lanes`), and a row lists for each output BYTE the
# operand bytes it certainly varies with.  g = significance index of a byte in the value (0 = least significant).
def blab(label, w, g):
    return "%s[%d]#%d" % (label, g // w, g % w)


def out_byte_path(A, g, prefix=()):
    w = db_of(A) // 8
    return prefix + dig_path(A) + (g // w, ("lane", g % w))


def brow(K, prop, fid, name, shape, contents, bytemap, OUT, n_out, n, prefix=(), by_ref_out=False, extra=None):
    """bytemap(g) -> set of labels output byte g of the bnum result of type OUT must be able to depend on"""
    req = []
    for g in range(n_out * db_of(OUT) // 8):
        need = bytemap(g)
        if need:
            req.append((out_byte_path(OUT, g, prefix), need, "byte %d of the result" % g))
    if extra:
        req += extra
    return row(K, prop, fid, name + "_bytes", shape, contents, req, n, by_ref_out=by_ref_out)


def shift_map(kind, s, total_bytes, w_src, signed, label="a"):
    """output byte g of x << s / x >> s / rotations: the source bytes holding its bits"""
    def f(g):
        lo, hi = 8 * g, 8 * g + 7
        need = set()
        tb = 8 * total_bytes
        if kind == "shl":
            for bit in (lo - s, hi - s):
                if 0 <= bit < tb:
                    need.add(blab(label, w_src, bit // 8))
        elif kind == "shr":
            for bit in (lo + s, hi + s):
                if bit < tb:
                    need.add(blab(label, w_src, bit // 8))
                elif signed:
                    need.add(blab(label, w_src, total_bytes - 1))
        elif kind == "rotl":
            for bit in (lo - s, hi - s):
                need.add(blab(label, w_src, (bit % tb) // 8))
        elif kind == "rotr":
            for bit in (lo + s, hi + s):
                need.add(blab(label, w_src, (bit % tb) // 8))
        return need
    return f


def byte_amounts(n, db):
    bits = n * db
    c = [0, 8, 5, db, db + 8, db - 8, bits - 8, bits - 3, 16, 24]
    return sorted({x for x in c if 0 <= x < bits})


def b_c05(K, Ns):
    out = []
    for A in ADTS:
        sg = is_signed(A)
        db = db_of(A)
        w = db // 8
        for n in Ns:
            sh = {"N": n}
            tb = n * w
            for s_ in byte_amounts(n, db):
                for m, form, kind in (("checked_shl", "opt", "shl"), ("wrapping_shl", "val", "shl"), ("overflowing_shl", "pair", "shl"), ("unbounded_shl", "val", "shl"),
                                      ("checked_shr", "opt", "shr"), ("wrapping_shr", "val", "shr"), ("overflowing_shr", "pair", "shr"), ("unbounded_shr", "val", "shr"),
                                      ("rotate_left", "val", "rotl"), ("rotate_right", "val", "rotr")):
                    fid = inh(A, m)
                    if not exists(K, fid):
                        continue
                    vp, _ = ret_forms(A, form)
                    out.append(brow(K, "C05", fid, "N%d_s%d" % (n, s_), sh, [val_of(A, "a"), ("c", s_, "u32")],
                                    shift_map(kind, s_, tb, w, sg), A, n, n, prefix=vp))
    return out


def b_c06(K, Ns):
    out = []
    for A in ADTS:
        w = db_of(A) // 8
        for n in Ns:
            sh = {"N": n}
            tb = n * w
            for m in ("bitand", "bitor", "bitxor"):
                fid = inh(A, m)
                if exists(K, fid):
                    out.append(brow(K, "C06", fid, "N%d" % n, sh, [val_of(A, "a"), val_of(A, "b")], lambda g: {blab("a", w, g), blab("b", w, g)}, A, n, n))
            fid = inh(A, "not")
            if exists(K, fid):
                out.append(brow(K, "C06", fid, "N%d" % n, sh, [val_of(A, "a")], lambda g: {blab("a", w, g)}, A, n, n))
            for m in ("swap_bytes", "reverse_bits"):
                fid = inh(A, m)
                if exists(K, fid):
                    out.append(brow(K, "C06", fid, "N%d" % n, sh, [val_of(A, "a")], lambda g: {blab("a", w, tb - 1 - g)}, A, n, n))
    return out


def b_c01(K, Ns):
    out = []
    for A in ADTS:
        w = db_of(A) // 8
        for n in Ns:
            sh = {"N": n}
            for m, form in (("overflowing_add", "pair"), ("overflowing_sub", "pair"), ("wrapping_add", "val"), ("wrapping_sub", "val"), ("checked_add", "opt"), ("checked_sub", "opt")):
                fid = inh(A, m)
                if exists(K, fid):
                    vp, _ = ret_forms(A, form)
                    out.append(brow(K, "C01", fid, "N%d" % n, sh, [val_of(A, "a"), val_of(A, "b")],
                                    lambda g: {blab("a", w, j) for j in range(g + 1)} | {blab("b", w, j) for j in range(g + 1)}, A, n, n, prefix=vp))
            for m, form in (("overflowing_neg", "pair"), ("wrapping_neg", "val")):
                fid = inh(A, m)
                if exists(K, fid):
                    vp, _ = ret_forms(A, form)
                    out.append(brow(K, "C01", fid, "N%d" % n, sh, [val_of(A, "a")], lambda g: {blab("a", w, j) for j in range(g + 1)}, A, n, n, prefix=vp))
    return out


def b_c02(K, Ns):
    out = []
    for A in ADTS:
        w = db_of(A) // 8
        for n in Ns:
            sh = {"N": n}
            for m, form in (("overflowing_mul", "pair"), ("wrapping_mul", "val"), ("checked_mul", "opt")):
                fid = inh(A, m)
                if exists(K, fid):
                    vp, _ = ret_forms(A, form)
                    out.append(brow(K, "C02", fid, "N%d" % n, sh, [val_of(A, "a"), val_of(A, "b")],
                                    lambda g: {blab("a", w, j) for j in range(g + 1)} | {blab("b", w, j) for j in range(g + 1)}, A, n, n, prefix=vp))
    return out


def b_c09(K, Ns, pairs):
    out = []
    for A in ADTS:
        sg = is_signed(A)
        w = db_of(A) // 8
        for n in Ns:
            sh = {"N": n}
            tb = n * w
            T = TWIN[A]
            for m in (("cast_unsigned", "to_bits") if sg else ("cast_signed",)):
                fid = inh(A, m)
                if exists(K, fid):
                    out.append(brow(K, "C09", fid, "N%d" % n, sh, [val_of(A, "a")], lambda g: {blab("a", w, g)}, T, n, n))
            if sg:
                fid = inh(A, "from_bits")
                if exists(K, fid):
                    out.append(brow(K, "C09", fid, "N%d" % n, sh, [val_of(T, "a")], lambda g: {blab("a", w, g)}, A, n, n))
            for p in PRIM_INTS:
                pw = PBITS[p] // 8
                fid = "<%s<N> as cast::CastFrom<%s>>::cast_from" % (A, p)
                if exists(K, fid) and pw > 1:
                    def pm(g, pw=pw, p=p):
                        if g < pw:
                            return {"p#%d" % g}
                        return {"p#%d" % (pw - 1)} if p.startswith("i") else set()
                    out.append(brow(K, "C09", fid, "N%d" % n, sh, [("p", "p", p)], pm, A, n, n))
                fid = "<%s as cast::CastFrom<%s<N>>>::cast_from" % (p, A)
                if exists(K, fid) and pw > 1:
                    req = [((("lane", g),), {blab("a", w, g)}, "byte %d of the result" % g) for g in range(min(pw, tb))]
                    if sg and tb < pw:
                        req += [((("lane", g),), {blab("a", w, tb - 1)}, "byte %d of the result (sign extension)" % g) for g in range(tb, pw)]
                    out.append(row(K, "C09", fid, "N%d_bytes" % n, sh, [val_of(A, "a")], req, n))
    for T in ADTS:
        for Sx in ADTS:
            fid = "<%s<N> as cast::CastFrom<%s<M>>>::cast_from" % (T, Sx)
            if not exists(K, fid):
                continue
            wi = db_of(Sx) // 8
            for (n, m) in pairs:
                sb = m * wi

                def cm(g, sb=sb, wi=wi, Sx=Sx):
                    if g < sb:
                        return {blab("a", wi, g)}
                    return {blab("a", wi, sb - 1)} if is_signed(Sx) else set()
                out.append(brow(K, "C09", fid, "N%d_M%d" % (n, m), {"N": n, "M": m}, [val_of(Sx, "a", m)], cm, T, n, n))
    return out


def b_c15(K, Ns):
    out = []
    for A in ADTS:
        sg = is_signed(A)
        w = db_of(A) // 8
        for n in Ns:
            sh = {"N": n}
            tb = n * w
            for L in sorted({1, w, w + 1, tb - 1, tb, tb + 1, tb + w + 1} - {0, -1}):
                if L <= 0:
                    continue
                for m, be in (("from_be_slice", True), ("from_le_slice", False)):
                    fid = inh(A, m)
                    if not exists(K, fid):
                        continue

                    def sm(g, L=L, be=be):
                        if g < L:
                            return {"s[%d]" % ((L - 1 - g) if be else g)}
                        return {"s[%d]" % (0 if be else L - 1)} if sg else set()
                    out.append(brow(K, "C15", fid, "N%d_L%d" % (n, L), sh, [("bytes", "s", L)], sm, A, n, n, prefix=(("some",), 0)))
            for m, rev in (("to_be", True), ("from_be", True), ("to_le", False), ("from_le", False)):
                fid = inh(A, m)
                if exists(K, fid):
                    out.append(brow(K, "C15", fid, "N%d" % n, sh, [val_of(A, "a")], (lambda g, rev=rev: {blab("a", w, tb - 1 - g if rev else g)}), A, n, n))
    return out


def b_c15_nightly(K, Ns):
    out = []
    for A in ADTS:
        w = db_of(A) // 8
        for n in Ns:
            sh = {"N": n}
            nb = n * w
            for m, be in (("to_be_bytes", True), ("to_le_bytes", False), ("to_ne_bytes", False)):
                fid = inh(A, m)
                if exists(K, fid):
                    req = [((b,), {blab("a", w, (nb - 1 - b) if be else b)}, "byte %d of the output" % b) for b in range(nb)]
                    out.append(row(K, "C15", fid, "N%d_bytes" % n, sh, [val_of(A, "a")], req, n))
            for m, be in (("from_be_bytes", True), ("from_le_bytes", False), ("from_ne_bytes", False)):
                fid = inh(A, m)
                if exists(K, fid):
                    out.append(brow(K, "C15", fid, "N%d" % n, sh, [("bytes", "s", nb)], (lambda g, be=be: {"s[%d]" % ((nb - 1 - g) if be else g)}), A, n, n))
    return out


def b_c10(K, Ns):
    out = []
    for A in ADTS:
        w = db_of(A) // 8
        for n in Ns:
            sh = {"N": n}
            tb = n * w
            for L in sorted({1, tb - 1, tb}):
                if L <= 0:
                    continue
                for m, be in (("from_radix_be", True), ("from_radix_le", False)):
                    fid = inh(A, m)
                    if exists(K, fid):
                        out.append(brow(K, "C10", fid, "N%d_r256_L%d" % (n, L), sh, [("bytes", "s", L), ("c", 256, "u32")],
                                        (lambda g, L=L, be=be: {"s[%d]" % ((L - 1 - g) if be else g)} if g < L else set()), A, n, n, prefix=(("some",), 0)))
    return out


def b_c13(K, Ns):
    out = []
    for A in ADTS:
        w = db_of(A) // 8
        for n in Ns:
            sh = {"N": n}
            fid = inh(A, "from_digits")
            if exists(K, fid):
                out.append(brow(K, "C13", fid, "N%d" % n, sh, [("digs", "a", n, DIGIT[A])], lambda g: {blab("a", w, g)}, A, n, n))
            if w > 1:
                fid = inh(A, "from_digit")
                if exists(K, fid):
                    out.append(brow(K, "C13", fid, "N%d" % n, sh, [("p", "p", DIGIT[A])], lambda g: {"p#%d" % g} if g < w else set(), A, n, n))
    return out


def b_c17(K, Ns):
    out = []
    for A in ADTS:
        w = db_of(A) // 8
        for n in Ns:
            sh = {"N": n}
            for opn, m, kind in (("Add", "add", "chain"), ("Sub", "sub", "chain"), ("Mul", "mul", "chain"), ("BitAnd", "bitand", "lane"), ("BitOr", "bitor", "lane"), ("BitXor", "bitxor", "lane")):
                def bm(g, kind=kind):
                    js = range(g + 1) if kind == "chain" else [g]
                    return {blab("a", w, j) for j in js} | {blab("b", w, j) for j in js}
                for selfref, rhsref in ((False, False), (True, True)):
                    fid = "<%s as core::ops::%s<%s>>::%s" % (("&" if selfref else "") + A + "<N>", opn, ("&" if rhsref else "") + A + "<N>", m)
                    if exists(K, fid):
                        out.append(brow(K, "C17", fid, "N%d" % n, sh, [val_of(A, "a"), val_of(A, "b")], bm, A, n, n))
                fid = "<%s<N> as core::ops::%sAssign<%s<N>>>::%s_assign" % (A, opn, A, m)
                if exists(K, fid):
                    out.append(brow(K, "C17", fid, "N%d" % n, sh, [val_of(A, "a"), val_of(A, "b")], bm, A, n, n, by_ref_out=True))
    return out


def b_c18(K, Ns):
    out = []
    NT = "num_traits::"
    for A in ADTS:
        w = db_of(A) // 8
        for n in Ns:
            sh = {"N": n}
            tb = n * w
            for m, rev in (("swap_bytes", True), ("reverse_bits", True), ("to_be", True), ("from_be", True), ("to_le", False), ("from_le", False)):
                fid = tr(A, NT + "PrimInt", [], m)
                if exists(K, fid):
                    out.append(brow(K, "C18", fid, "N%d" % n, sh, [val_of(A, "a")], (lambda g, rev=rev: {blab("a", w, tb - 1 - g if rev else g)}), A, n, n))
    return out


# ------------------------------------------------------------------------------------------------ dispatch
def pairs_for(tier):
    if tier == "quick":
        return [(1, 1), (1, 2), (2, 1), (2, 3), (3, 2), (3, 3), (4, 1), (1, 4), (3, 5), (5, 3)]
    return [(n, m) for n in range(1, 7) for m in range(1, 7)]


def obligations(ctx, prop, tier):
    Ns = QUICK_N if tier == "quick" else THOROUGH_N
    if tier == "quick" and prop in QUICK_WIDE:
        Ns = QUICK_N_WIDE
    configs = ["Kd", "Kr"]
    table = {"C01": c01, "C02": c02, "C03": c03, "C05": c05, "C06": c06, "C07": c07, "C08": c08, "C10": c10, "C14": c14, "C15": c15, "C17": c17, "C18": c18, "C19": c19, "C20": c20}
    btable = {"C01": b_c01, "C02": b_c02, "C05": b_c05, "C06": b_c06, "C10": b_c10, "C13": b_c13, "C15": b_c15, "C17": b_c17, "C18": b_c18}
    out = []
    for cfg in configs:
        K = ctx.k(cfg)
        if prop in btable:
            out += btable[prop](K, Ns)
        if prop == "C09":
            out += b_c09(K, Ns, pairs_for(tier))
        if prop in table:
            out += table[prop](K, Ns)
        elif prop == "C09":
            out += c09(K, Ns, pairs_for(tier))
        elif prop == "C13":
            out += c13(K, Ns, pairs_for(tier))
    if prop == "C15":
        from analysis import build
        try:
            Kn = ctx.k("Kdn")
        except build.BuildFailed:
            Kn = None           # the optional nightly configuration does not build: its rows do not exist (as for the F rows)
        if Kn is not None:
            out += c15_nightly(Kn, Ns)
            out += b_c15_nightly(Kn, Ns)
        else:
            for A in ADTS:
                for m in ("to_be_bytes", "to_le_bytes", "to_ne_bytes", "from_be_bytes", "from_le_bytes", "from_ne_bytes"):
                    for n in Ns:
                        out.append(core.Ob("C15:D:Kdn:%s:N%d_bytes" % (inh(A, m), n), "C15", "D", "Kdn", inh(A, m), core.UNDECIDED,
                                           "configuration Kdn (feature `nightly`) does not build on this tree: not decided"))
            # keep the enumerated count independent of whether the optional configuration builds
            for A in ADTS:
                for m in ("to_be_bytes", "to_le_bytes", "to_ne_bytes", "from_be_bytes", "from_le_bytes", "from_ne_bytes"):
                    for n in Ns:
                        out.append(core.Ob("C15:D:Kdn:%s:N%d" % (inh(A, m), n), "C15", "D", "Kdn", inh(A, m), core.UNDECIDED,
                                           "configuration Kdn (feature `nightly`) does not build on this tree: not decided"))
    return out

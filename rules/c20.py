"""C20 - random generation.

Decided: G - Uniform::new / new_inclusive build (low, range = high - low + 1 wrapping to 0 for the full range,
rejection count z with (MAX - z + 1) a multiple of range); `new` is `new_inclusive(low, high - 1)`; Uniform::sample and
sample_single(_inclusive) on (bounds, RNG word) representatives - including signed ranges spanning zero, ranges of
size 1, 2^k, 2^k + 1, more than half the type, and the full range - either return a value inside the requested
range or reject the word (loop), for both accepted and rejected words; low >= high / low > high panics.
S - Standard for unsigned types passes the *whole* digit array to Rng::fill and builds the value from it; Standard for
signed types is from_bits of an unsigned draw.  widening_mul / leading_zeros / overflowing_* are trusted by contract.
Not decided: exact unbiasedness (preimage counts), slice fill (try_fill), the RNG itself.
"""
from .common import *
from . import arith
from analysis import core, guards, nf
from analysis.guards import BN, PI

PROP = "C20"
INFO = dict(
    explanation="Clause decided: range / zone construction, in-range-or-reject routing of the samplers on bounds x RNG-word representatives, whole-array fill in Standard.",
    not_decided="exact preimage counts (unbiasedness), Fill::try_fill byte view, the RNG",
)
US = "rand::distributions::uniform::UniformSampler"


def bounds(A):
    """(name, low, high) inclusive ranges as functions of the world"""
    lo = (lambda W: arith.rng(W, A)[0])
    hi = (lambda W: arith.rng(W, A)[1])
    out = [("full", lo, hi), ("one", lambda W: 5, lambda W: 5), ("two", lambda W: 5, lambda W: 6),
           ("pow2", lambda W: 3, lambda W: 3 + (1 << (W.bits(A) // 2)) - 1), ("pow2p1", lambda W: 3, lambda W: 3 + (1 << (W.bits(A) // 2))),
           ("top_half", lambda W: hi(W) - (hi(W) - lo(W)) // 2 - 3, hi), ("wide", lambda W: lo(W) + 1, hi),
           ("almost_full", lo, lambda W: hi(W) - 1)]
    if A in SIGNED:
        out += [("span0", lambda W: -10, lambda W: 10), ("neg", lambda W: -100, lambda W: -90), ("n10_max", lambda W: -10, hi)]
    # keep only ranges expressible in the type at this width (digit count 1 of the u8-digit types is 8 bits wide)
    def guard(f_lo, f_hi):
        return f_lo, f_hi
    return [(n, l, h) for n, l, h in out]
    return out


HI_IS_MAX = {"full", "top_half", "wide", "n10_max"}      # not expressible as an exclusive range
WORDS = [("0", lambda W, A: 0), ("1", lambda W, A: 1), ("max", lambda W, A: (1 << W.bits(A)) - 1), ("half", lambda W, A: 1 << (W.bits(A) - 1)),
         ("mid", lambda W, A: (1 << (W.bits(A) - 1)) + 12345), ("low", lambda W, A: 0x1234567), ("maxm1", lambda W, A: (1 << W.bits(A)) - 2)]


def valid(W, A, lo, hi):
    tlo, thi = arith.rng(W, A)
    return tlo <= lo <= hi <= thi


def in_range_or_reject(A, lo_f, hi_f):
    def f(W, env):
        lo, hi = lo_f(W), hi_f(W)
        if not valid(W, A, lo, hi):
            return ("any",)
        return ("any_of", ("pred", lambda v: isinstance(v, BN) and lo <= v.v <= hi), ("opaque_ok",))
    return f


def obligations(ctx, tier):
    out = []
    for cfg in (["Kd", "Kr"] if tier == "quick" else ["Kd", "Kr", "Kdn", "Krn"]):
        K = ctx.k(cfg)
        F = K.F
        for A in ADTS:
            T = T_(A)
            UI = "random::UniformInt<%s>" % T
            f_new = "<%s as %s>::new" % (UI, US)
            f_newi = "<%s as %s>::new_inclusive" % (UI, US)
            f_sample = "<%s as %s>::sample" % (UI, US)
            f_ss = "<%s as %s>::sample_single" % (UI, US)
            f_ssi = "<%s as %s>::sample_single_inclusive" % (UI, US)
            # ---- construction
            reps_i, reps_n = [], []
            for n, lo_f, hi_f in bounds(A):
                def exp_ctor(W, env, lo_f=lo_f, hi_f=hi_f, A=A):
                    w = W.bits(A)
                    if not valid(W, A, lo_f(W), hi_f(W)):
                        return ("any",)
                    rngsz = (hi_f(W) - lo_f(W) + 1) % (1 << w)

                    def ok(v):
                        if not (isinstance(v, tuple) and v and v[0] == "struct"):
                            return False
                        d = dict(v[2])
                        low, rg, z = d.get("low"), d.get("range"), d.get("z")
                        if not all(isinstance(x, BN) for x in (low, rg, z)):
                            return None
                        m = (1 << w) - 1
                        if low.v != lo_f(W) or (rg.v & m) != rngsz:
                            return False
                        # z counts the rejected words: the accepted zone [0, MAX - z] must hold a multiple of `range` words
                        return rngsz == 0 or ((m - (z.v & m)) + 1) % rngsz == 0
                    return ("pred", ok)
                reps_i.append((n, (lambda lo_f=lo_f, hi_f=hi_f, A=A: lambda W: {0: W.wrap(A, lo_f(W)), 1: W.wrap(A, hi_f(W))})(), exp_ctor))
                if n not in HI_IS_MAX:
                    reps_n.append((n, (lambda lo_f=lo_f, hi_f=hi_f, A=A: lambda W: {0: W.wrap(A, lo_f(W)), 1: W.wrap(A, hi_f(W) + 1)})(), exp_ctor))
            reps_i.append(("reversed", (lambda A=A: lambda W: {0: W.wrap(A, 9), 1: W.wrap(A, 3)})(), expect(("panic", "*"))))
            reps_n.append(("empty", (lambda A=A: lambda W: {0: W.wrap(A, 9), 1: W.wrap(A, 9)})(), expect(("panic", "*"))))
            out += core.g_row(K, PROP, f_newi, reps_i)
            out += core.g_row(K, PROP, f_new, reps_n)
            # ---- sampling: Uniform::sample(self = new_inclusive(low, high), word) and the single-shot forms
            for wn, wf in WORDS:
                cp = {"rng_word": (lambda wf=wf: lambda W, adt: wf(W, adt))()}
                reps_s, reps_1, reps_1x = [], [], []
                for n, lo_f, hi_f in bounds(A):
                    def env_self(W, lo_f=lo_f, hi_f=hi_f, A=A, f_newi=f_newi):
                        S = core._sg(W.K)
                        tree = S.summary(W.K.F.root_of(f_newi))
                        o, _ = guards.outcome(tree, {0: W.wrap(A, lo_f(W)), 1: W.wrap(A, hi_f(W))}, W)
                        return {0: o[1] if o[0] == "ret" else guards.OPAQUE, 1: guards.OPAQUE}
                    reps_s.append(("%s_w%s" % (n, wn), env_self, in_range_or_reject(A, lo_f, hi_f)))
                    reps_1.append(("%s_w%s" % (n, wn), (lambda lo_f=lo_f, hi_f=hi_f, A=A: lambda W: {0: W.wrap(A, lo_f(W)), 1: W.wrap(A, hi_f(W)), 2: guards.OPAQUE})(),
                                   in_range_or_reject(A, lo_f, hi_f)))
                    if n not in HI_IS_MAX:
                        reps_1x.append(("%s_w%s" % (n, wn), (lambda lo_f=lo_f, hi_f=hi_f, A=A: lambda W: {0: W.wrap(A, lo_f(W)), 1: W.wrap(A, hi_f(W) + 1), 2: guards.OPAQUE})(),
                                        in_range_or_reject(A, lo_f, hi_f)))
                out += core.g_row(K, PROP, f_sample, reps_s, cparams=cp)
                out += core.g_row(K, PROP, f_ssi, reps_1, cparams=cp)
                out += core.g_row(K, PROP, f_ss, reps_1x, cparams=cp)
            # ---- exhaustive preimage count at 8 bits (u8-digit types, one digit): every RNG word
            if A in ("BUintD8", "BIntD8"):
                out += enumeration_rows(K, A, f_newi, f_sample, f_ssi)
            # ---- Standard
            out.append(standard_row(K, A))
    return out


def standard_row(K, A):
    F = K.F
    fid = "<rand::distributions::Standard as rand::distributions::Distribution<%s>>::sample" % T_(A)
    key = "%s:S:%s:%s" % (PROP, K.config, fid)
    root = F.root_of(fid)
    if root is None:
        return core.missing(PROP, "S", K, fid)
    loc = F.loc(F.instances[root]["d"])
    tree = core._sg(K).summary(root)
    D = DIGIT[A]
    if tree[0] == "RET":
        v = tree[1]
        if is_signed(A):
            # from_bits(gen::<unsigned>())
            txt = nf.show_term(v)
            if v[0] == "C" and "from_bits" in v[1] and len(v[2]) == 1 and v[2][0][0] == "C" and "rand::Rng::gen::<R, %s<N>>" % TWIN[A] in v[2][0][1]:
                return core.Ob(key, PROP, "S", K.config, fid, core.PROVED, "from_bits of an unsigned draw: " + txt[:160], loc)
        else:
            if v[0] == "CT" and v[1] == A and len(v[3]) == 1:
                inner = v[3][0]
                if inner[0] == "OUT" and inner[1][0] == "C" and "rand::Rng::fill::<R, [%s; N]>" % D in inner[1][1]:
                    arr = inner[1][2][inner[2]]
                    if arr[0] == "RP" and arr[2] == "N":
                        return core.Ob(key, PROP, "S", K.config, fid, core.PROVED,
                                       "the whole [%s; N] array is filled by Rng::fill and becomes the digits" % D, loc)
    return core.Ob(key, PROP, "S", K.config, fid, core.UNDECIDED, "not the single whole-array fill shape: " + nf.show_tree(tree)[:200], loc)


def enumeration_rows(K, A, f_newi, f_sample, f_ssi):
    """Unbiasedness at 8 bits: walk the sampler's guard tree for all 256 RNG words; accepted words must map onto the
    requested range with the same number of preimages for every value, rejected words must re-enter the loop."""
    F = K.F
    out = []
    S = core._sg(K)
    guards._DESCEND = (S, F)
    signed = A in SIGNED
    ranges = [(0, 2), (5, 11), (0, 99), (3, 130 if not signed else 100), (7, 7), (0, 127)]
    if signed:
        ranges += [(-1, 1), (-128, 127), (-100, 27), (-128, -1)]
    else:
        ranges += [(0, 255), (1, 255), (128, 255)]
    for which, fid in (("sample", f_sample), ("sample_single_inclusive", f_ssi)):
        root = F.root_of(fid)
        for lo, hi in ranges:
            key = "%s:G:%s:%s:enum8_%s_%s" % (PROP, K.config, fid, str(lo).replace("-", "n"), str(hi).replace("-", "n"))
            if root is None:
                out.append(core.missing(PROP, "G", K, fid))
                continue
            loc = F.loc(F.instances[root]["d"])
            tree = S.summary(root)
            counts = {}
            rejected = 0
            status, detail = core.PROVED, ""
            for word in range(256):
                W = guards.World(1, {"rng_word": (lambda word=word: lambda W_, adt: word)()})
                W.K = K
                if which == "sample":
                    ctree = S.summary(F.root_of(f_newi))
                    o0, _ = guards.outcome(ctree, {0: W.wrap(A, lo), 1: W.wrap(A, hi)}, W)
                    if o0[0] != "ret" or o0[1] is guards.OPAQUE:
                        status, detail = core.UNDECIDED, "sampler construction not evaluable"
                        break
                    env = {0: o0[1], 1: guards.OPAQUE}
                else:
                    env = {0: W.wrap(A, lo), 1: W.wrap(A, hi), 2: guards.OPAQUE}
                o, path = guards.outcome(tree, env, W)
                if o[0] == "opaque":
                    if isinstance(o[1], tuple) and o[1][0] == "S" and "loop" in o[1][1]:
                        rejected += 1
                        continue
                    status, detail = core.UNDECIDED, "word %d: walk stopped at %s" % (word, nf.show_term(o[1])[:120])
                    break
                if o[0] != "ret" or not isinstance(o[1], BN):
                    status, detail = core.UNDECIDED, "word %d: outcome %s" % (word, o[0])
                    break
                counts[o[1].v] = counts.get(o[1].v, 0) + 1
            if status == core.PROVED:
                outside = sorted(v for v in counts if not (lo <= v <= hi))
                missing = [v for v in range(lo, hi + 1) if v not in counts]
                distinct = sorted(set(counts.values()))
                if outside:
                    status, detail = core.VIOLATED, "range %d..=%d: values outside the range are produced (%s)" % (lo, hi, outside[:5])
                elif missing:
                    status, detail = core.VIOLATED, "range %d..=%d: %d values of the range are never produced (e.g. %s)" % (lo, hi, len(missing), missing[:3])
                elif len(distinct) != 1:
                    status, detail = core.VIOLATED, "range %d..=%d: preimage counts differ between values (%s; %d words rejected)" % (
                        lo, hi, {c: sum(1 for x in counts.values() if x == c) for c in distinct}, rejected)
                else:
                    detail = "range %d..=%d: every value has %d preimages among the 256 words, %d words rejected" % (lo, hi, distinct[0], rejected)
            out.append(core.Ob(key, PROP, "G", K.config, fid, status, detail, loc))
    return out

"""C10 - parsing.

Decided: G - radix range guards (`r < 2 or r > 36` -> panic for the string forms, `> 256` for the digit-slice forms)
precede any read of the input; empty string -> Err(Empty), empty digit slice -> Some(ZERO); from_radix_be pairs with
from_be_slice and the big-endian internal parser, from_radix_le with from_le_slice and the little-endian one (radix 256
included, for every digit type); the byte -> digit table maps exactly [0-9a-zA-Z] below 36 and every other byte to a
value no radix accepts (all 256 bytes enumerated); F - FromStr == from_str_radix(s, 10), signed forms wrap the unsigned
parser; P+/P- - the radix panic is reachable, no other API-contract class from the from_* family.
Not decided: the accepted grammar beyond the digit table, the value, the error kinds (including the leading-zero
rejection for radix 2/4/16 that the property statement mentions), from_*_slice decoding.
"""
from .common import *
from . import arith
from analysis import core, audit
from analysis.guards import PI, BN

PROP = "C10"
INFO = dict(
    explanation="Clause decided: radix-range guards, empty-input outcomes, big/little-endian pairing of the digit-slice parsers (including radix 256), the complete byte-to-digit table, trait forwarding; no other panic class.",
    not_decided="accepted grammar and values inside from_buf_radix_internal, error kinds, leading-zero handling",
    assumptions=["P- rows are a may-analysis restricted to API-contract panic classes"],
)


def S_(text):
    return ("str", tuple(PI("u8", b) for b in text.encode()))


def B_(data):
    return ("arr", tuple(PI("u8", b) for b in data))


def obligations(ctx, tier):
    out = []
    aud = audit.default()
    configs = ["Kd", "Kr"] if tier == "quick" else ["Kd", "Kr", "Kd0", "Kr0"]
    for cfg in configs:
        K = ctx.k(cfg)
        F = K.F
        for A in ADTS:
            sg = is_signed(A)
            U = A if not sg else TWIN[A]
            # ---- string forms: radix guard, empty input, internal parser
            reps = []
            for r in (0, 1, 37, 100, 256, (1 << 32) - 1):
                for nm, sv in (("empty", ""), ("12", "12")):
                    reps.append(("r%d_%s" % (r, nm), (lambda r=r, sv=sv: lambda W: {0: S_(sv), 1: PI("u32", r)})(), expect(("panic", "radix_range(36)"))))
            for r in (2, 10, 16, 36):
                reps.append(("r%d_empty" % r, (lambda r=r: lambda W: {0: S_(""), 1: PI("u32", r)})(), expect(("pred", lambda v: isinstance(v, tuple) and v[0] == "Err"))))
                reps.append(("r%d_12" % r, (lambda r=r: lambda W: {0: S_("12"), 1: PI("u32", r)})(),
                             expect(("ret_call", "from_buf_radix_internal::<N, true, true>"))))
            out += core.g_row(K, PROP, inh(A, "from_str_radix"), reps)
            # the const panicking form: same radix guard, and an empty text panics
            out += core.g_row(K, PROP, inh(A, "parse_str_radix"),
                              [r_ for r_ in reps if r_[0].startswith(("r0_", "r1_", "r37_", "r100_", "r256_", "r4294967295_"))]
                              + [("r%d_empty" % r, (lambda r=r: lambda W: {0: S_(""), 1: PI("u32", r)})(), expect(("panic", "*"))) for r in (2, 10, 16, 36)])
            # ---- digit-slice forms
            for m, be, sl in (("from_radix_be", "true", "from_be_slice"), ("from_radix_le", "false", "from_le_slice")):
                reps = []
                for r in (0, 1, 257, 1000):
                    reps.append(("r%d" % r, (lambda r=r: lambda W: {0: B_([1, 2]), 1: PI("u32", r)})(), expect(("panic", "radix_range(256)"))))
                for r in (2, 10, 255, 256):
                    reps.append(("r%d_empty" % r, (lambda r=r: lambda W: {0: B_([]), 1: PI("u32", r)})(),
                                 (lambda A=A: lambda W, env: ("some", W.wrap(A, 0)))()))
                for r in (2, 10, 16, 255):
                    reps.append(("r%d_digits" % r, (lambda r=r: lambda W: {0: B_([1, 0, 1]), 1: PI("u32", r)})(),
                                 expect(("ret_call", "from_buf_radix_internal::<N, false, %s>" % be,
                                         "from_buf_radix_internal::<N, false, %s>" % ("false" if be == "true" else "true")))))
                other = "from_le_slice" if sl == "from_be_slice" else "from_be_slice"
                # radix 256: the digits are the bytes of the magnitude / bit pattern - the unsigned byte decoder of the same
                # endianness.  Explicitly wrong: the other endianness, and (signed types) the two's-complement slice decoder,
                # which sign-extends short inputs and accepts 0xFF padding
                wrong = [other] + (["%s<N>::%s" % (A, sl), "%s<N>::%s" % (A, other)] if sg else [])
                reps.append(("r256_bytes", lambda W: {0: B_([1, 2, 3]), 1: PI("u32", 256)}, expect(("ret_call", (U + "<N>::" + sl) if sg else sl) + tuple(wrong))))
                out += core.g_row(K, PROP, inh(A, m), reps)
            # ---- sign handling / error-kind mapping of the string parsers around the parser core
            out += sign_rows(K, A)
            # ---- no content-independent rejection (zero-padded numerals): information-flow rule T
            for m in ("from_str_radix", "parse_bytes", "from_radix_be", "from_radix_le"):
                out.append(core.t_row(K, PROP, inh(A, m)))
            out.append(core.t_row(K, PROP, tr(A, "core::str::FromStr", [], "from_str")))
            if not sg:
                out.append(core.t_row(K, PROP, inh(A, "from_buf_radix_internal"), soft=True))
            # ---- trait forwarding
            out.append(core.f_row(K, PROP, tr(A, "core::str::FromStr", [], "from_str"), call(inh(A, "from_str_radix"), P(0), lit("u32", 10))))
            # ---- panic effects
            for m in ("from_str_radix", "parse_bytes"):
                out.append(core.p_plus(K, PROP, inh(A, m), "radix_range(36)"))
                out += core.p_minus(K, PROP, inh(A, m), {"radix_range(36)"}, aud)
            for m in ("from_radix_be", "from_radix_le"):
                out.append(core.p_plus(K, PROP, inh(A, m), "radix_range(256)"))
                out += core.p_minus(K, PROP, inh(A, m), {"radix_range(256)"}, aud)
            # FromStr passes the literal radix 10, so the radix panic (call-graph reachable) cannot fire: shown by the guard walk
            out += core.p_minus(K, PROP, tr(A, "core::str::FromStr", [], "from_str"), {"radix_range(36)"}, aud)
            out += core.g_row(K, PROP, tr(A, "core::str::FromStr", [], "from_str"),
                              [("empty", lambda W: {0: S_("")}, expect(("pred", lambda v: isinstance(v, tuple) and v[0] == "Err"))),
                               ("12", lambda W: {0: S_("12")}, expect(("not", ("panic", "*"))))])
            # ---- the byte -> digit table (unsigned owner only)
            if not sg:
                out += digit_table_rows(K, A)
    return out


def digit_table_rows(K, A):
    """Enumerate the 256 bytes through the string parser's byte-to-digit helper (internal helper: soft anchor)."""
    F = K.F
    fid = inh(A, "byte_to_digit")
    inst = F.find_instance(fid, ["N", "true"])
    if inst is None:
        # one obligation per byte in every case: the enumerated count must not depend on the helper's existence
        return [core.Ob("%s:G:%s:%s:byte_%02x" % (PROP, K.config, fid, b), PROP, "G", K.config, fid, core.UNDECIDED,
                        "the byte-to-digit helper is not a separate function any more; the table is not decided") for b in range(256)]

    def want(b):
        c = chr(b)
        if "0" <= c <= "9":
            return b - 48
        if "a" <= c <= "z":
            return b - 97 + 10
        if "A" <= c <= "Z":
            return b - 65 + 10
        return None
    reps = []
    for b in range(256):
        w = want(b)
        exp = ("val", PI("u8", w)) if w is not None else ("pred", lambda v: isinstance(v, PI) and v.v >= 36)
        reps.append(("byte_%02x" % b, (lambda b=b: lambda W: {0: PI("u8", b)})(), expect(exp)))
    return core.g_row(K, PROP, fid, reps, inst=inst, cparams={"FROM_STR": True})


def sign_rows(K, A):
    """from_str_radix / parse_bytes / FromStr on sign, boundary and invalid-character representatives; the parser core
    (from_buf_radix_internal) is trusted by contract, the wrappers around it are analysed."""
    sg = is_signed(A)
    out = []

    def texts(W, radix):
        lo, hi = arith.rng(W, A)

        def num(v):
            neg = v < 0
            v = abs(v)
            digs = "0123456789abcdefghijklmnopqrstuvwxyz"
            s_ = ""
            while True:
                s_ = digs[v % radix] + s_
                v //= radix
                if v == 0:
                    break
            return ("-" if neg else "") + s_
        t = ["", "0", "-0", "+0", "7", "-7", "+7", "007", "+007", "-007", num(hi), "+" + num(hi), num(hi + 1), "000" + num(hi),
             "-", "+", "1x", "-x", "x1", "1 ", " 1", "1-", "--1", "+-1", "1_0", "\x121"]
        if sg:
            t += [num(lo), num(lo - 1), "-000" + num(-lo), num(lo + 1)]
            # magnitudes with more digits than the type holds: the overflow kind follows the sign
            t += ["-" + num(1 << W.bits(A)), num(1 << W.bits(A)), "-" + num((1 << W.bits(A)) * radix + 3)]
        else:
            t += ["-1", "-" + num(hi)]
        if radix == 36:
            t += ["z", "Z", "zz", "-z"]
        if radix == 8:
            t += ["8", "78"]
        if radix == 16:
            t += ["ff", "FF", "fg", "0x1"]
        return t

    def reference(W, text, radix):
        """Rust's iN/uN::from_str_radix"""
        lo, hi = arith.rng(W, A)
        if text == "":
            return ("err", "Empty")
        body = text
        neg = False
        if text[0] == "+":
            body = text[1:]
        elif text[0] == "-" and sg:
            body = text[1:]
            neg = True
        if body == "":
            return ("err", "InvalidDigit")
        v = 0
        for ch in body:
            if "0" <= ch <= "9":
                d = ord(ch) - 48
            elif "a" <= ch <= "z":
                d = ord(ch) - 87
            elif "A" <= ch <= "Z":
                d = ord(ch) - 55
            else:
                d = 99
            if d >= radix:
                return ("err", "InvalidDigit")
            v = v * radix + d
        if neg:
            v = -v
        if v > hi:
            return ("err", "PosOverflow")
        if v < lo:
            return ("err", "NegOverflow")
        return ("ok", v)

    for radix in (10, 16, 2, 36, 8):
        reps_s, reps_b, reps_p = [], [], []
        for j in range(44):
            def env_s(W, j=j, radix=radix):
                tx = texts(W, radix)
                return {0: S_(tx[j % len(tx)]), 1: PI("u32", radix)}

            def env_b(W, j=j, radix=radix):
                tx = texts(W, radix)
                return {0: B_(tx[j % len(tx)].encode()), 1: PI("u32", radix)}

            def exp_s(W, env, radix=radix):
                text = bytes(d.v for d in env[0][1]).decode()
                r = reference(W, text, radix)
                return ("okv", W.wrap(A, r[1])) if r[0] == "ok" else ("err_kind", r[1])

            def exp_b(W, env, radix=radix):
                text = bytes(d.v for d in env[0][1]).decode()
                r = reference(W, text, radix)
                return ("some", W.wrap(A, r[1])) if r[0] == "ok" else ("none",)
            def exp_p(W, env, radix=radix):
                # parse_str_radix: the const, panicking form - the denoted value, or a panic for every refused text
                text = bytes(d.v for d in env[0][1]).decode()
                r = reference(W, text, radix)
                return ("val", W.wrap(A, r[1])) if r[0] == "ok" else ("panic", "*")
            reps_s.append(("r%d_t%d" % (radix, j), env_s, exp_s))
            reps_b.append(("r%d_t%d" % (radix, j), env_b, exp_b))
            reps_p.append(("r%d_t%d" % (radix, j), env_s, exp_p))
        out += core.g_row(K, PROP, inh(A, "from_str_radix"), reps_s, tag="sign")
        out += core.g_row(K, PROP, inh(A, "parse_str_radix"), reps_p, tag="sign")
        ntf = tr(A, "num_traits::Num", [], "from_str_radix")
        if K.F.lookup(ntf) is not None:
            out += core.g_row(K, PROP, ntf, reps_s, tag="sign")      # the num-traits entry point accepts the same language
        out += core.g_row(K, PROP, inh(A, "parse_bytes"), reps_b, tag="sign")
    reps_f = []
    for j in range(44):
        def env_f(W, j=j):
            tx = texts(W, 10)
            return {0: S_(tx[j % len(tx)])}

        def exp_f(W, env):
            text = bytes(d.v for d in env[0][1]).decode()
            r = reference(W, text, 10)
            return ("okv", W.wrap(A, r[1])) if r[0] == "ok" else ("err_kind", r[1])
        reps_f.append(("t%d" % j, env_f, exp_f))
    # the trait entry point also at digit count 1 (a one-digit type is where a digit-typed shortcut would differ)
    old = core.WORLDS_FOR
    core.WORLDS_FOR = lambda f: (1, 2, 3)
    try:
        out += core.g_row(K, PROP, tr(A, "core::str::FromStr", [], "from_str"), reps_f, tag="sign")
    finally:
        core.WORLDS_FOR = old
    return out

"""C01 - add / sub / neg / abs in every overflow mode.

Decided (G): for representative operands of every sign / boundary combination, each documented form
(overflowing, checked, wrapping, saturating, strict, unsuffixed in both build modes, the mixed-sign forms,
carrying_add / borrowing_sub with carry in, abs_diff, unsigned_abs, midpoint) routes to the outcome the Rust
reference prescribes, *given* that the digit-loop terminals overflowing_add / overflowing_sub / overflowing_neg
(and the bit-logic / shift primitives used by midpoint) meet their documented contract.
Not decided: those terminals themselves (carry chains, top-digit signed step, early-exit negate).
"""
from .common import *
from . import arith
from analysis import core

PROP = "C01"
INFO = dict(
    explanation="Clause decided: the checked / wrapping / saturating / strict / unsuffixed / mixed-sign / carry-in forms are the documented "
                "projections of the overflowing pair on boundary and sign representatives, at digit counts 2 and 3.",
    not_decided="exactness and flag of the digit-loop terminals overflowing_add/sub/neg themselves",
)


def obligations(ctx, tier):
    out = []
    configs = ["Kd", "Kr"] if tier == "quick" else ["Kd", "Kr", "Kd0", "Kr0"]
    for cfg in configs:
        K = ctx.k(cfg)
        from . import digits
        out += digits.add_sub_rows(K, PROP)
        for A in ADTS:
            sg = is_signed(A)
            from . import c18
            out += c18.trait_value_rows(K, A, PROP, stems={"add", "sub", "neg"})     # num-traits entry points of the same operations
            out += arith.mode_rows(K, PROP, A, "add", "TT", lambda W, a, b: a + b, "overflow(add)")
            out += arith.mode_rows(K, PROP, A, "sub", "TT", lambda W, a, b: a - b, "overflow(sub)")
            if sg:
                out += arith.mode_rows(K, PROP, A, "neg", "T", lambda W, a: -a, "overflow(neg)")
                out += arith.mode_rows(K, PROP, A, "abs", "T", lambda W, a: abs(a), "overflow(neg)")
                out += arith.mode_rows(K, PROP, A, "add_unsigned", "TU", lambda W, a, b: a + b, "overflow(add)",
                                       forms=("overflowing", "checked", "wrapping", "saturating", "strict"))
                out += arith.mode_rows(K, PROP, A, "sub_unsigned", "TU", lambda W, a, b: a - b, "overflow(sub)",
                                       forms=("overflowing", "checked", "wrapping", "saturating", "strict"))
                out += core.g_row(K, PROP, inh(A, "unsigned_abs"),
                                  arith.reps(A, "T", (lambda A=A: lambda W, env: ("val", W.wrap(TWIN[A], abs(env[0].v))))()))
                out += core.g_row(K, PROP, inh(A, "abs_diff"),
                                  arith.reps(A, "TT", (lambda A=A: lambda W, env: ("val", W.wrap(TWIN[A], abs(env[0].v - env[1].v))))()))
                out += core.g_row(K, PROP, inh(A, "midpoint"),
                                  arith.reps(A, "TT", (lambda A=A: lambda W, env: ("val", W.wrap(A, _trunc_half(env[0].v + env[1].v))))()))
            else:
                out += arith.mode_rows(K, PROP, A, "neg", "T", lambda W, a: -a, "overflow(neg)",
                                       forms=("overflowing", "checked", "wrapping", "strict"))
                out += arith.mode_rows(K, PROP, A, "add_signed", "TI", lambda W, a, b: a + b, "overflow(add)",
                                       forms=("overflowing", "checked", "wrapping", "saturating", "strict"))
                out += core.g_row(K, PROP, inh(A, "abs_diff"),
                                  arith.reps(A, "TT", (lambda A=A: lambda W, env: ("val", W.wrap(A, abs(env[0].v - env[1].v))))()))
                out += core.g_row(K, PROP, inh(A, "midpoint"),
                                  arith.reps(A, "TT", (lambda A=A: lambda W, env: ("val", W.wrap(A, (env[0].v + env[1].v) // 2)))()))
            out += core.g_row(K, PROP, inh(A, "unchecked_add"), arith.reps(A, "TT", arith.unchecked_expect(A, lambda W, a, b: a + b)))
            out += core.g_row(K, PROP, inh(A, "unchecked_sub"), arith.reps(A, "TT", arith.unchecked_expect(A, lambda W, a, b: a - b)))
            # carry-in forms
            out += core.g_row(K, PROP, inh(A, "carrying_add"),
                              arith.reps(A, "TTb", arith.form_expect("overflowing", A, lambda W, a, b, c: a + b + int(c), None, K.debug)))
            out += core.g_row(K, PROP, inh(A, "borrowing_sub"),
                              arith.reps(A, "TTb", arith.form_expect("overflowing", A, lambda W, a, b, c: a - b - int(c), None, K.debug)))
    return out


def _trunc_half(s):
    return s // 2 if s >= 0 else -((-s) // 2)

"""Fact-file loader and indices (DESIGN.md 2.1/2.2)."""
import re

from . import build

UNSIGNED = ["BUint", "BUintD32", "BUintD16", "BUintD8"]
SIGNED = ["BInt", "BIntD32", "BIntD16", "BIntD8"]
ADTS = UNSIGNED + SIGNED
DIGIT = {"BUint": "u64", "BUintD32": "u32", "BUintD16": "u16", "BUintD8": "u8",
         "BInt": "u64", "BIntD32": "u32", "BIntD16": "u16", "BIntD8": "u8"}
TWIN = dict(zip(UNSIGNED, SIGNED))
TWIN.update(dict(zip(SIGNED, UNSIGNED)))
PRIM_INTS = ["u8", "u16", "u32", "u64", "u128", "usize", "i8", "i16", "i32", "i64", "i128", "isize"]

_ADT_RE = re.compile(r"(?:\b[a-z_][a-z_0-9]*::)+(BUintD32|BUintD16|BUintD8|BUint|BIntD32|BIntD16|BIntD8|BInt)\b")


_LT_RE = re.compile(r"'[a-z_][a-z_0-9]*\s+|for<[^>]*>\s*")


def short(t):
    """Strip bnum's module paths from the eight ADT names inside a type string."""
    if t is None:
        return None
    t = _LT_RE.sub("", t)
    return _ADT_RE.sub(lambda m: m.group(1), t)


def is_signed(adt):
    return adt in SIGNED


class Facts:
    def __init__(self, data, config):
        self.config = config
        self.data = data
        self.defs = data["defs"]
        self.debug = data["debug_assertions"]
        self.bodies = {}            # def idx -> body
        for b in data["bodies"]:
            self.bodies[b["def"]] = b
        self.instances = data["instances"]
        self.root_inst = {}         # def idx -> instance idx (identity generics)
        for d, i in data["roots"]:
            self.root_inst[d] = i
        self.adts = {a["name"]: a for a in data["adts"]}
        self.impls = data["impls"]
        self._fid = {}
        self.by_fid = {}
        for i, d in enumerate(self.defs):
            f = self._make_fid(i, d)
            self._fid[i] = f
            if d.get("local") and i in self.bodies:
                if f in self.by_fid:
                    # disambiguate duplicates deterministically
                    k = 2
                    while "%s#%d" % (f, k) in self.by_fid:
                        k += 1
                    f = "%s#%d" % (f, k)
                    self._fid[i] = f
                self.by_fid[f] = i
        for i, d in enumerate(self.defs):
            if self._fid[i] not in self.by_fid:
                self.by_fid.setdefault(self._fid[i], i)
        # call maps per instance
        self._calls = {}

    # ------------------------------------------------------------ identities
    def _make_fid(self, i, d):
        kind = d["kind"]
        if kind == "Closure" or "closure_of" in d:
            # path ends with ::{closure#k}...; rebuild from the enclosing fn
            suffix = d["path"][len(d["closure_of"]):] if d["path"].startswith(d.get("closure_of", "\0")) else d["path"]
            base = self._container_fid(d, d.get("closure_of_name"))
            return base + suffix
        return self._container_fid(d, d.get("name"))

    def _container_fid(self, d, name):
        if "self_ty" in d:
            st = short(d["self_ty"])
            if d.get("trait"):
                ta = d.get("trait_args") or []
                tr = d["trait"] + ("<" + ", ".join(short(a) for a in ta) + ">" if ta else "")
                return "<%s as %s>::%s" % (st, tr, name)
            return "%s::%s" % (st, name)
        if "trait_decl" in d:
            return "%s::%s" % (d["trait_decl"], name)
        return short(d["path"])

    def fid(self, def_idx):
        return self._fid[def_idx]

    def inst_fid(self, inst_idx):
        return self._fid[self.instances[inst_idx]["d"]]

    def inst_label(self, inst_idx):
        i = self.instances[inst_idx]
        f = self._fid[i["d"]]
        d = self.defs[i["d"]]
        # show generic args only when they are not the identity-looking ones
        if d.get("local") and "self_ty" in d:
            return f
        if i["a"]:
            return "%s::<%s>" % (f, ", ".join(short(a) for a in i["a"]))
        return f

    def lookup(self, fid):
        """def idx of a local function by canonical id, or None."""
        i = self.by_fid.get(fid)
        if i is None or i not in self.bodies:
            return None
        return i

    def root_of(self, fid):
        i = self.lookup(fid)
        if i is None:
            return None
        return self.root_inst.get(i)

    def find_instance(self, fid, args):
        """instance of a local function with the given generic-argument strings (as printed, shortened)"""
        d = self.lookup(fid)
        if d is None:
            return None
        want = [short(a) for a in args]
        for n, i in enumerate(self.instances):
            if i["d"] == d and [short(a) for a in i["a"]] == want and i["k"] == "item":
                return n
        return None

    def calls_of(self, inst_idx):
        """bb -> target instance idx (or None when the driver could not type the callee)."""
        c = self._calls.get(inst_idx)
        if c is None:
            c = {}
            for bb, t in self.instances[inst_idx]["c"]:
                c[bb] = t if isinstance(t, int) else None
            self._calls[inst_idx] = c
        return c

    def fn_defs(self):
        """Iterate (def idx, def, body) for local fn-like bodies."""
        for i, b in self.bodies.items():
            d = self.defs[i]
            if d["kind"] in ("Fn", "AssocFn", "Closure"):
                yield i, d, b

    def loc(self, def_idx):
        d = self.defs[def_idx]
        return "%s:%s" % (d.get("file", "?"), d.get("line", "?"))


_cache = {}


def load(config, repo=None):
    key = (config, repo)
    if key not in _cache:
        _cache[key] = Facts(build.load(config, repo), config)
    return _cache[key]

"""Rule D - index-sensitive dependence analysis (DESIGN.md 2.2(f), 3).

A may-dependence analysis over the MIR of one root function at a concrete *shape* (digit counts N / M, slice lengths,
shift amounts): an abstract interpreter whose domain is, per scalar,

        (conc, deps)     conc = the value when it is a compile-time function of the shape alone (loop counters, indices,
                                 associated constants), else unknown;
                         deps = the set of *input leaves* (digit j of parameter i, byte j of the slice, ...) the value may
                                 depend on, through data flow or through control flow (implicit flows).

Loops whose exit test is a function of the shape are unrolled by constant propagation of the counter; a branch whose
discriminant is unknown is followed on every successor up to its immediate post-dominator, where the states are joined
and the discriminant's deps are added to everything assigned in between (and to everything after it when some successor
left the function or diverged: the rest of the execution is control dependent on it).  No *data* is ever evaluated: input
leaves have no value, only a name.

Dependence is *termination-insensitive*: two runs are compared only when both return, so the condition of a panic
(MIR `Assert`, a branch whose other side only panics) adds no dependence to what follows.  This is what the verdict
needs: if the specified function returns on two inputs that differ only in leaf i and its output leaf o differs, then code
whose o cannot depend on i either returns the same o on both (wrong on one of them) or panics on one (wrong as well).

The analysis over-approximates dependence: calls without a MIR body (core / alloc / rand) return a value that depends on
every argument and everything reachable through reference arguments, and overwrite what mutable references point to;
anything the interpreter cannot model (raw pointer arithmetic, unknown pointers, unbounded data-dependent loops, budget)
raises `Imprecise`, and the obligation is UNDECIDED.  A verdict is only ever drawn from the *absence* of a dependence:
if output leaf o cannot depend on input leaf i, while the specified mathematical function's o does vary with i, the code
computes a different function (sound, given the over-approximation).
"""
import sys

from . import facts

sys.setrecursionlimit(20000)


class Imprecise(Exception):
    pass


class Diverge(Exception):
    """the current path ends without returning (panic, unreachable)"""


E = frozenset()
UNDEF = ("undef",)
INT_BITS = {"u8": 8, "u16": 16, "u32": 32, "u64": 64, "u128": 128, "usize": 64, "i8": 8, "i16": 16, "i32": 32, "i64": 64,
            "i128": 128, "isize": 64, "bool": 1, "char": 32}
SIGNED = {"i8", "i16", "i32", "i64", "i128", "isize"}


def S(conc=None, deps=E, ty=None):
    return ("s", conc, deps, ty)


def SL(conc, ty, lanes):
    """a scalar with per-byte dependence sets (least significant byte first); deps = their union"""
    d = E
    for l in lanes:
        d = d | l
    return ("s", conc, d, ty, tuple(lanes))


def nbytes(ty):
    b = INT_BITS.get(ty)
    return b // 8 if b and b >= 8 else None


def lanes_of(v, ty=None):
    """per-byte dependence of a scalar: its own lanes when it carries them (and they fit the type), else every byte may
    depend on everything the value depends on"""
    ty = ty or v[3]
    n = nbytes(ty)
    if n is None:
        return None
    if len(v) > 4 and v[4] is not None and len(v[4]) == n:
        return v[4]
    return (v[2],) * n


def TOP(deps=E):
    return ("top", deps)


def wrap(v, ty):
    """reduce a Python int into the range of `ty` (two's complement)"""
    b = INT_BITS.get(ty)
    if b is None or v is None:
        return None
    v &= (1 << b) - 1
    if ty in SIGNED and v >> (b - 1):
        v -= 1 << b
    return v


def alldeps(v):
    k = v[0]
    if k == "s":
        return v[2]
    if k == "top":
        return v[1]
    if k in ("agg", "arr", "iter"):
        d = v[2] if k == "iter" else E
        for x in v[1]:
            d = d | alldeps(x)
        return d
    if k == "enum":
        d = v[2]
        for _vi, fs in v[3]:
            for x in fs:
                d = d | alldeps(x)
        return d
    return E


def add_deps(v, d):
    if not d:
        return v
    k = v[0]
    if k == "s":
        if d <= v[2] and not (len(v) > 4 and v[4] is not None):
            return v
        if len(v) > 4 and v[4] is not None:
            return ("s", v[1], v[2] | d, v[3], tuple(l | d for l in v[4]))
        return ("s", v[1], v[2] | d, v[3])
    if k == "top":
        return ("top", v[1] | d)
    if k == "agg":
        return ("agg", tuple(add_deps(x, d) for x in v[1]), v[2])
    if k == "arr":
        return ("arr", tuple(add_deps(x, d) for x in v[1]))
    if k == "iter":
        # the items of an iterator model are references or values; what it yields under a dependent condition is dependent
        return ("iter", tuple(add_deps(x, d) for x in v[1]), v[2] | d)
    if k == "enum":
        return ("enum", v[1], v[2] | d, tuple((vi, tuple(add_deps(x, d) for x in fs)) for vi, fs in v[3]))
    return v


def join(a, b):
    if a is b or a == b:
        return a
    if a[0] == "undef":
        return b
    if b[0] == "undef":
        return a
    ka, kb = a[0], b[0]
    if ka == "top" or kb == "top":
        return ("top", alldeps(a) | alldeps(b))
    if ka == "iter" or kb == "iter":
        if ka == kb and len(a[1]) == len(b[1]):
            try:
                return ("iter", tuple(join(x, y) for x, y in zip(a[1], b[1])), a[2] | b[2])
            except Imprecise:
                pass
        raise Imprecise("join of two different iterator states")
    if ka != kb:
        if {ka, kb} <= {"s", "agg", "arr", "enum", "zst"}:
            return ("top", alldeps(a) | alldeps(b))
        raise Imprecise("join of %s and %s" % (ka, kb))
    if ka == "s":
        ty_ = a[3] if a[3] == b[3] else None
        if ty_ is not None and (len(a) > 4 or len(b) > 4):
            la, lb = lanes_of(a), lanes_of(b)
            if la is not None and lb is not None and len(la) == len(lb):
                return ("s", a[1] if a[1] == b[1] else None, a[2] | b[2], ty_, tuple(x | y for x, y in zip(la, lb)))
        return ("s", a[1] if a[1] == b[1] else None, a[2] | b[2], ty_)
    if ka == "agg":
        if len(a[1]) != len(b[1]):
            n = max(len(a[1]), len(b[1]))
            xa = a[1] + (UNDEF,) * (n - len(a[1]))
            xb = b[1] + (UNDEF,) * (n - len(b[1]))
            return ("agg", tuple(join(x, y) for x, y in zip(xa, xb)), a[2] if a[2] == b[2] else None)
        return ("agg", tuple(join(x, y) for x, y in zip(a[1], b[1])), a[2] if a[2] == b[2] else None)
    if ka == "arr":
        if len(a[1]) != len(b[1]):
            return ("top", alldeps(a) | alldeps(b))
        return ("arr", tuple(join(x, y) for x, y in zip(a[1], b[1])))
    if ka == "enum":
        pa, pb = dict(a[3]), dict(b[3])
        out = {}
        for vi in set(pa) | set(pb):
            if vi in pa and vi in pb:
                fa, fb = pa[vi], pb[vi]
                n = max(len(fa), len(fb))
                fa = fa + (UNDEF,) * (n - len(fa))
                fb = fb + (UNDEF,) * (n - len(fb))
                out[vi] = tuple(join(x, y) for x, y in zip(fa, fb))
            else:
                out[vi] = pa.get(vi, pb.get(vi))
        return ("enum", a[1] if a[1] == b[1] else None, a[2] | b[2], tuple(sorted(out.items())))
    if ka == "ref":
        if a[1] == b[1]:
            return a
        raise Imprecise("join of two different pointers")
    if ka == "zst":
        return a
    raise Imprecise("join of %s" % ka)


def join_mem(m1, m2):
    out = []
    for f1, f2 in zip(m1, m2):
        if f1 is f2:
            out.append(f1)
            continue
        f = {}
        for l in set(f1) | set(f2):
            f[l] = join(f1.get(l, UNDEF), f2.get(l, UNDEF))
        out.append(f)
    return out


# ------------------------------------------------------------------------------------------------ post-dominators
def _succs(bl):
    if "cleanup" in bl:
        return []
    t = bl["term"]
    k = t["t"]
    if k in ("goto", "drop", "assert"):
        return [t["to"]]
    if k == "switch":
        return list(dict.fromkeys([tgt for _v, tgt in t["vals"]] + [t["otherwise"]]))
    if k == "call":
        return [t["to"]] if t["to"] is not None else []
    return []


_PD_CACHE = {}


def ipdoms(body):
    """immediate post-dominator per block (None = the virtual exit)"""
    key = id(body)
    if key in _PD_CACHE:
        return _PD_CACHE[key][1]
    n = len(body["blocks"])
    succ = [_succs(b) for b in body["blocks"]]
    EXIT = n
    allb = set(range(n + 1))
    pd = [set(allb) for _ in range(n + 1)]
    pd[EXIT] = {EXIT}
    changed = True
    order = list(range(n - 1, -1, -1))
    while changed:
        changed = False
        for b in order:
            ss = succ[b] or [EXIT]
            new = set.intersection(*[pd[s] for s in ss]) | {b}
            if new != pd[b]:
                pd[b] = new
                changed = True
    res = []
    for b in range(n):
        cands = pd[b] - {b}
        # the immediate post-dominator is the candidate post-dominated by... every other candidate post-dominates it
        best = None
        for c in cands:
            if all(o == c or o in pd[c] for o in cands):
                best = c
                break
        res.append(None if best is None or best == EXIT else best)
    _PD_CACHE[key] = (body, res)
    return res


# ------------------------------------------------------------------------------------------------ interpreter
class Interp:
    MAX_STEPS = 400000
    MAX_DEPTH = 60
    MAX_SPLIT = 300
    MAX_SAME_SPLIT = 40          # re-entries of one data-dependent branch while it is still open (a data-dependent loop)

    def __init__(self, F, shape):
        self.F = F
        self.shape = dict(shape)           # const generic name -> int for the ROOT instance
        self.mem = []                      # frames: list of dict local -> value
        self.steps = 0
        self.split_depth = 0
        self.split_at = {}
        self.ext_seen = {}
        self.const_cache = {}

    # ---------------------------------------------------------------- environments
    def genv(self, inst_idx, parent_env):
        """const-generic environment of an instance: generic names of its def -> ints"""
        ins = self.F.instances[inst_idx]
        d = self.F.defs[ins["d"]]
        names = d.get("generics") or []
        env = {}
        for nm, a in zip(names, ins["a"]):
            v = self.eval_const_str(a, parent_env)
            if v is not None:
                env[nm] = v
        return env

    def eval_const_str(self, s_, env):
        s_ = str(s_).strip()
        if s_ in env:
            return env[s_]
        if s_.isdigit():
            return int(s_)
        if s_ in ("true", "false"):
            return 1 if s_ == "true" else 0
        m = s_.rstrip("_usize").rstrip("_")
        if m.isdigit():
            return int(m)
        return None

    # ---------------------------------------------------------------- memory
    def snapshot(self):
        return [dict(f) for f in self.mem]

    def restore(self, snap):
        self.mem = [dict(f) for f in snap]

    def resolve(self, fid, place):
        """place -> (frame, local, path, extra index deps)"""
        cur = (fid, place[0], ())
        for e in place[1]:
            if e == "*":
                v = self.read_target(cur)
                if v[0] != "ref" or v[1] is None:
                    raise Imprecise("dereference of an unknown pointer (%s)" % (v[0],))
                cur = v[1]
            elif isinstance(e, dict):
                if "f" in e:
                    cur = (cur[0], cur[1], cur[2] + (("f", e["f"]),))
                elif "i" in e:
                    iv = self.mem[fid].get(e["i"], UNDEF)
                    if iv[0] == "s":
                        cur = (cur[0], cur[1], cur[2] + (("i", iv[1], iv[2]),))
                    else:
                        cur = (cur[0], cur[1], cur[2] + (("i", None, alldeps(iv)),))
                elif "ci" in e:
                    if e.get("end"):
                        cur = (cur[0], cur[1], cur[2] + (("ie", e["ci"]),))
                    else:
                        cur = (cur[0], cur[1], cur[2] + (("i", e["ci"], E),))
                elif "dc" in e or "v" in e and "dc" in e:
                    cur = (cur[0], cur[1], cur[2] + (("v", e["v"]),))
                elif "oc" in e or "ub" in e:
                    pass
                else:
                    raise Imprecise("projection %r" % (e,))
            else:
                raise Imprecise("projection %r" % (e,))
        return cur

    @staticmethod
    def _proj(v, e):
        k = v[0]
        if k == "top":
            return v
        if k == "undef":
            return TOP()
        if e[0] == "f":
            if k == "agg":
                return v[1][e[1]] if e[1] < len(v[1]) else UNDEF
            if k == "enum":
                # field access on an enum without downcast: single-variant
                ps = dict(v[3])
                if len(ps) == 1:
                    fs = list(ps.values())[0]
                    return fs[e[1]] if e[1] < len(fs) else UNDEF
            return TOP(alldeps(v))
        if e[0] == "v":
            if k == "enum":
                ps = dict(v[3])
                if e[1] in ps:
                    return ("agg", ps[e[1]], None)
                if v[1] is not None and v[1] != e[1]:
                    return TOP()
                return TOP(v[2])
            return TOP(alldeps(v))
        if e[0] == "i":
            if k != "arr":
                return TOP(alldeps(v) | e[2])
            if e[1] is None:
                r = UNDEF
                for x in v[1]:
                    r = join(r, x)
                if r[0] == "undef":
                    r = TOP()
                return add_deps(r, e[2])
            if 0 <= e[1] < len(v[1]):
                return add_deps(v[1][e[1]], e[2])
            return TOP()       # out of bounds: the path panics at the bounds check
        if e[0] == "ie":
            if k != "arr":
                return TOP(alldeps(v))
            i = len(v[1]) - e[1]
            return v[1][i] if 0 <= i < len(v[1]) else TOP()
        raise Imprecise("projection %r" % (e,))

    def read_target(self, tgt):
        fid, local, path = tgt
        v = self.mem[fid].get(local, UNDEF)
        for e in path:
            v = self._proj(v, e)
        return v

    def _update(self, v, path, new):
        if not path:
            return new
        e = path[0]
        k = v[0]
        if k == "top":
            return TOP(v[1] | alldeps(new))
        if e[0] == "f":
            if k == "undef":
                v = ("agg", (), None)
                k = "agg"
            if k == "agg":
                xs = list(v[1])
                while len(xs) <= e[1]:
                    xs.append(UNDEF)
                xs[e[1]] = self._update(xs[e[1]], path[1:], new)
                return ("agg", tuple(xs), v[2])
            if k == "enum":
                ps = dict(v[3])
                if len(ps) == 1:
                    vi = list(ps)[0]
                    xs = list(ps[vi])
                    while len(xs) <= e[1]:
                        xs.append(UNDEF)
                    xs[e[1]] = self._update(xs[e[1]], path[1:], new)
                    return ("enum", v[1], v[2], ((vi, tuple(xs)),))
            return TOP(alldeps(v) | alldeps(new))
        if e[0] == "v":
            if k == "undef":
                v = ("enum", None, E, ())
                k = "enum"
            if k == "enum":
                ps = dict(v[3])
                cur = ("agg", ps.get(e[1], ()), None)
                cur = self._update(cur, path[1:], new)
                ps[e[1]] = cur[1] if cur[0] == "agg" else (cur,)
                return ("enum", v[1], v[2], tuple(sorted(ps.items())))
            return TOP(alldeps(v) | alldeps(new))
        if e[0] == "i":
            if k != "arr":
                return TOP(alldeps(v) | alldeps(new) | e[2])
            xs = list(v[1])
            if e[1] is None:
                for j in range(len(xs)):
                    xs[j] = join(xs[j], add_deps(self._update(xs[j], path[1:], new), e[2]))
                return ("arr", tuple(xs))
            if 0 <= e[1] < len(xs):
                xs[e[1]] = add_deps(self._update(xs[e[1]], path[1:], new), e[2])
                return ("arr", tuple(xs))
            return v
        if e[0] == "ie":
            if k != "arr":
                return TOP(alldeps(v) | alldeps(new))
            xs = list(v[1])
            i = len(xs) - e[1]
            if 0 <= i < len(xs):
                xs[i] = self._update(xs[i], path[1:], new)
            return ("arr", tuple(xs))
        raise Imprecise("store through projection %r" % (e,))

    def write_target(self, tgt, val):
        fid, local, path = tgt
        old = self.mem[fid].get(local, UNDEF)
        self.mem[fid][local] = self._update(old, path, val)

    # ---------------------------------------------------------------- constants
    def const_val(self, fr, k):
        ty = k.get("ty")
        if "cv" in k:
            return S(wrap(k["cv"], ty) if ty in INT_BITS else k["cv"], E, ty)
        if "tyconst" in k:
            if "param" in k:
                v = fr["env"].get(k["param"])
                if v is None:
                    v = self.shape.get(k["param"]) if fr["root"] else None
                return S(v, E, ty)
            if "v" in k:
                return S(wrap(k["v"], ty) if ty in INT_BITS else k["v"], E, ty)
            v = self.eval_const_str(k["tyconst"], fr["env"])
            return S(v, E, ty)
        if "promoted" in k and "uneval" in k:
            pbs = fr["body"].get("promoted", [])
            if k["promoted"] < len(pbs) and pbs[k["promoted"]]:
                v = self.run_const_body(pbs[k["promoted"]], fr)
                # a promoted is a `&'static T`: materialise the pointee
                return v
            return TOP()
        if "uneval" in k:
            di = k["uneval"]
            args = tuple(self.eval_const_str(a, fr["env"]) if not isinstance(a, (dict, list)) else None for a in k.get("args", []))
            key = (di, args)
            if key in self.const_cache:
                return self.const_cache[key]
            body = self.F.bodies.get(di)
            if body is None or "blocks" not in body:
                return TOP()
            d = self.F.defs[di]
            names = d.get("generics")
            if names is None:
                # associated consts carry no generics list of their own: positional over the impl's const params
                names = self._impl_generic_names(d)
            env = {}
            for nm, a in zip(names, args):
                if a is not None:
                    env[nm] = a
            sub = dict(body=body, env=env, root=False, inst=None)
            try:
                v = self.run_const_body(body, sub)
            except Diverge:
                v = TOP()
            self.const_cache[key] = v
            return v
        if "v" in k:
            if ty in INT_BITS:
                return S(wrap(k["v"], ty), E, ty)
            return S(k["v"], E, ty)
        if k.get("zst"):
            return ("zst", k)
        if "str" in k:
            return ("arr", tuple(S(b, E, "u8") for b in k["str"].encode()))
        return TOP()

    def self_assoc_const(self, fr, name):
        """value of `Self::NAME` (an array length written with an associated constant) for the function being interpreted"""
        F = self.F
        d = F.defs[F.instances[fr["inst"]]["d"]]
        head = d.get("self_head")
        if not head:
            return None
        for di, dd in enumerate(F.defs):
            if dd.get("name") == name and dd.get("self_head") == head and str(dd.get("kind", "")).startswith("AssocConst") and dd.get("local") \
                    and not dd.get("trait"):
                names = self._impl_generic_names(dd)
                v = self.const_val(fr, {"ty": "usize", "uneval": di, "args": names})
                if v[0] == "s" and isinstance(v[1], int):
                    return v[1]
        return None

    def _impl_generic_names(self, d):
        st = d.get("self_ty") or ""
        names = []
        import re
        for m in re.finditer(r"<([A-Z][A-Za-z0-9_]*(?:,\s*[A-Z][A-Za-z0-9_]*)*)>", st):
            names += [x.strip() for x in m.group(1).split(",")]
        return names or ["N"]

    def run_const_body(self, body, fr):
        sub = dict(body=body, env=fr["env"], root=fr.get("root", False), inst=None)
        self.mem.append({})
        fid = len(self.mem) - 1
        sub["fid"] = fid
        try:
            _reached, _pc, events = self.exec_blocks(sub, 0, None, E)
        except Exception:
            del self.mem[fid:]
            raise
        if not events:
            del self.mem[fid:]
            raise Diverge()
        ret = UNDEF
        m = None
        for rv, mm, _p in events:
            ret = join(ret, rv)
            m = mm if m is None else join_mem(m, mm)
        self.mem = m
        if ret[0] == "ref" and ret[1] is not None and ret[1][0] >= fid:
            # `&'static T`: move the pointee into a heap cell of frame 0
            keep = self.read_target(ret[1])
            if keep[0] == "ref":
                raise Imprecise("constant holding a pointer to a pointer")
            key = "static%d" % len(self.mem[0])
            self.mem[0][key] = keep
            ret = ("ref", (0, key, ()))
        del self.mem[fid:]
        return ret

    # ---------------------------------------------------------------- operands / rvalues
    def operand(self, fr, op):
        if op[0] in ("c", "m"):
            return self.read_target(self.resolve(fr["fid"], op[1]))
        if op[0] == "k":
            return self.const_val(fr, op[1])
        return TOP()

    @staticmethod
    def _scalar(v):
        if v[0] == "s":
            return v
        if v[0] == "iter":
            return S(None, alldeps(v), None)
        if v[0] == "zst":
            return S(0, E, None)
        return S(None, alldeps(v), None)

    def binop(self, op, a, b):
        a, b = self._scalar(a), self._scalar(b)
        deps = a[2] | b[2]
        ty = a[3] or b[3]
        x, y = a[1], b[1]
        chk = op.endswith("WithOverflow")
        base = op[:-len("WithOverflow")] if chk else (op[:-len("Unchecked")] if op.endswith("Unchecked") else op)
        if base in ("Eq", "Ne", "Lt", "Le", "Gt", "Ge"):
            if x is None or y is None:
                return S(None, deps, "bool")
            r = {"Eq": x == y, "Ne": x != y, "Lt": x < y, "Le": x <= y, "Gt": x > y, "Ge": x >= y}[base]
            return S(int(r), deps, "bool")
        if base == "Cmp":
            if x is None or y is None:
                return ("enum", None, deps, ())
            return ("enum", None, deps, ()) if True else None
        if base == "Offset":
            raise Imprecise("pointer arithmetic")
        r = None
        ovf = None
        if x is not None and y is not None and ty in INT_BITS:
            try:
                if base == "Add":
                    r = x + y
                elif base == "Sub":
                    r = x - y
                elif base == "Mul":
                    r = x * y
                elif base == "Div":
                    r = abs(x) // abs(y) * (1 if (x < 0) == (y < 0) else -1) if y else None
                elif base == "Rem":
                    r = (abs(x) % abs(y)) * (1 if x >= 0 else -1) if y else None
                elif base == "BitAnd":
                    r = x & y
                elif base == "BitOr":
                    r = x | y
                elif base == "BitXor":
                    r = x ^ y
                elif base == "Shl":
                    r = x << (y % INT_BITS[ty])
                    if chk or op == "Shl":
                        ovf = not (0 <= y < INT_BITS[ty])
                elif base == "Shr":
                    r = x >> (y % INT_BITS[ty])
                    ovf = not (0 <= y < INT_BITS[ty])
            except Exception:
                r = None
            if r is not None:
                w = wrap(r, ty)
                if ovf is None:
                    ovf = w != r
                r = w
        elif base in ("BitAnd", "Mul") and (x == 0 or y == 0) and ty in INT_BITS:
            pass
        val = self._with_lanes(base, a, b, r, deps, ty)
        if chk:
            return ("agg", (val, S(None if r is None else int(bool(ovf)), deps, "bool")), None)
        return val

    @staticmethod
    def _prefix(la, lb):
        out = []
        acc = E
        for x, y in zip(la, lb):
            acc = acc | x | y
            out.append(acc)
        return out

    def _with_lanes(self, base, a, b, r, deps, ty):
        """result of an integer operation with per-byte dependence where the operation is byte-local or ripples upwards"""
        n = nbytes(ty)
        if n is None or not (len(a) > 4 or len(b) > 4):
            return S(r, deps, ty)
        la, lb = lanes_of(a, ty), lanes_of(b, ty)
        if base in ("Shl", "Shr"):
            lb = None
        if la is None or (lb is None and base not in ("Shl", "Shr")):
            return S(r, deps, ty)
        x, y = a[1], b[1]
        if base in ("BitAnd", "BitOr", "BitXor"):
            lanes = [p | q for p, q in zip(la, lb)]
            if base == "BitAnd":
                for conc in (x, y):
                    if conc is not None:
                        cm = conc & ((1 << (8 * n)) - 1)
                        for i in range(n):
                            if (cm >> (8 * i)) & 0xFF == 0:
                                lanes[i] = E
            return SL(r, ty, lanes)
        if base in ("Add", "Sub", "Mul"):
            return SL(r, ty, self._prefix(la, lb))
        if base in ("Shl", "Shr"):
            sd = b[2]
            if y is None or not (0 <= y < 8 * n):
                allv = a[2] | sd
                return SL(r, ty, [allv] * n)
            q, rem = divmod(y, 8)
            lanes = []
            for i in range(n):
                d_ = E
                if base == "Shl":
                    if i - q >= 0:
                        d_ = d_ | la[i - q]
                        if rem and i - q - 1 >= 0:
                            d_ = d_ | la[i - q - 1]
                else:
                    if i + q < n:
                        d_ = d_ | la[i + q]
                        if rem and i + q + 1 < n:
                            d_ = d_ | la[i + q + 1]
                    if ty in SIGNED and (i + q + 1 >= n):
                        d_ = d_ | la[n - 1]
                lanes.append(d_ | sd)
            return SL(r, ty, lanes)
        return S(r, deps, ty)

    def cast(self, rv, v):
        kind = rv["k"]
        to = rv["ty"]
        if kind in ("IntToInt",):
            v = self._scalar(v)
            c = v[1]
            if c is not None and to in INT_BITS:
                c = wrap(c, to)
            else:
                c = None if to not in INT_BITS else c
            frm = rv.get("from")
            nt = nbytes(to)
            nf_ = nbytes(frm)
            if nt is not None and nf_ is not None and nf_ < nt and not (len(v) > 4 and v[4] is not None and len(v[4]) == nf_):
                # widening of a value without byte lanes: its bytes stay in the low lanes, the new high lanes are zero
                # (unsigned source) or copies of the sign (signed source)
                return SL(c, to, [v[2]] * nf_ + [v[2] if frm in SIGNED else E] * (nt - nf_))
            if nt is not None and len(v) > 4 and v[4] is not None and nbytes(frm) == len(v[4]):
                li = list(v[4])
                if nt <= len(li):
                    return SL(c, to, li[:nt])
                ext = li[-1] if frm in SIGNED else E
                return SL(c, to, li + [ext] * (nt - len(li)))
            if nt is not None and frm == "bool" and nt >= 1:
                return SL(c, to, [v[2]] + [E] * (nt - 1))
            return S(c, v[2], to)
        if kind.startswith("PointerCoercion(Unsize") or kind == "Subtype":
            return v
        if kind in ("PtrToPtr", "PointerCoercion(MutToConstPointer, Implicit)") or kind.startswith("PointerCoercion(MutToConst"):
            return v
        if kind in ("IntToFloat", "FloatToInt", "FloatToFloat"):
            return S(None, alldeps(v), to)
        if kind == "Transmute":
            if v[0] == "ref":
                raise Imprecise("transmute of a pointer")
            import re as _re
            ma, mb = _re.match(r"^\[(\w+); .*\]$", rv.get("from", "")), _re.match(r"^\[(\w+); .*\]$", to or "")
            if v[0] == "arr" and ma and mb and ma.group(1) == mb.group(1):
                return v          # an array reinterpreted as an array of the same element type (two spellings of one length)
            return TOP(alldeps(v))
        if v[0] == "ref":
            raise Imprecise("cast %s of a pointer" % kind)
        return TOP(alldeps(v))

    def rvalue(self, fr, rv):
        r = rv["r"]
        if r == "use":
            return self.operand(fr, rv["a"])
        if r == "bin":
            return self.binop(rv["op"], self.operand(fr, rv["a"]), self.operand(fr, rv["b"]))
        if r == "un":
            v = self.operand(fr, rv["a"])
            op = rv["op"]
            if op == "PtrMetadata":
                if v[0] == "ref" and v[1] is not None:
                    t = self.read_target(v[1])
                    if t[0] == "arr":
                        return S(len(t[1]), E, "usize")
                    return S(None, E, "usize")
                return S(None, alldeps(v), "usize")
            v = self._scalar(v)
            c = v[1]
            if c is not None:
                if op == "Not":
                    c = (1 - c) if v[3] == "bool" else (wrap(~c, v[3]) if v[3] in INT_BITS else None)
                elif op == "Neg":
                    c = wrap(-c, v[3]) if v[3] in INT_BITS else None
                else:
                    c = None
            if len(v) > 4 and v[4] is not None and op in ("Not", "Neg"):
                lv = lanes_of(v)
                if lv is not None:
                    return SL(c, v[3], list(lv) if op == "Not" else self._prefix(lv, [E] * len(lv)))
            return S(c, v[2], v[3])
        if r == "cast":
            return self.cast(rv, self.operand(fr, rv["a"]))
        if r in ("ref", "rawptr"):
            return ("ref", self.resolve(fr["fid"], rv["p"]))
        if r == "discr":
            v = self.read_target(self.resolve(fr["fid"], rv["p"]))
            if v[0] == "enum":
                return S(v[1], v[2], None)
            return S(None, alldeps(v), None)
        if r == "agg":
            ops = tuple(self.operand(fr, o) for o in rv["ops"])
            k = rv["k"]
            if k == "array":
                return ("arr", ops)
            if k == "tuple":
                return ("agg", ops, None)
            if k == "adt":
                adt = self.F.adts.get(rv["adt"])
                is_enum = rv["adt"] in ("Option", "Result", "Ordering") or (adt is not None and not adt.get("is_struct", True)) or \
                    (adt is None and rv.get("variant") != rv["adt"])
                if is_enum:
                    return ("enum", rv["vi"], E, ((rv["vi"], ops),))
                return ("agg", ops, rv["adt"])
            if k == "closure":
                cinst = None
                if fr.get("inst") is not None:
                    for ent in self.F.instances[fr["inst"]].get("r", []):
                        ci = ent[1] if isinstance(ent, (list, tuple)) else ent
                        if isinstance(ci, int) and self.F.instances[ci]["d"] == rv.get("def"):
                            cinst = ci
                            break
                return ("agg", ops, ("closure", rv.get("def"), cinst))
            if k == "rawptr":
                raise Imprecise("raw pointer aggregate")
            return TOP(frozenset().union(*[alldeps(o) for o in ops]) if ops else E)
        if r == "repeat":
            v = self.operand(fr, rv["a"])
            n = self.eval_const_str(rv["n"], fr["env"])
            if n is None and fr.get("root"):
                n = self.shape.get(rv["n"])
            if n is None and str(rv["n"]).startswith("Self::") and fr.get("inst") is not None:
                n = self.self_assoc_const(fr, str(rv["n"])[6:])
            if n is None or n > 4096:
                return TOP(alldeps(v))
            return ("arr", (v,) * n)
        if r == "len":
            v = self.read_target(self.resolve(fr["fid"], rv["p"]))
            return S(len(v[1]) if v[0] == "arr" else None, E, "usize")
        raise Imprecise("rvalue %s" % r)

    # ---------------------------------------------------------------- execution
    def exec_blocks(self, fr, bb, stop, pc):
        """run from block bb until `stop` (not executed), a return or divergence.
        -> (reached: bool, pc at the end, [return events (value, memory, pc)])"""
        body = fr["body"]
        fid = fr["fid"]
        events = []
        while True:
            if bb == stop:
                return True, pc, events
            self.steps += 1
            if self.steps > self.MAX_STEPS:
                raise Imprecise("step budget exhausted")
            bl = body["blocks"][bb]
            if "cleanup" in bl:
                return False, pc, events
            for st in bl["st"]:
                k = st["s"]
                if k == "assign":
                    v = self.rvalue(fr, st["rv"])
                    self.write_target(self.resolve(fid, st["p"]), add_deps(v, pc))
                elif k == "setdiscr":
                    tgt = self.resolve(fid, st["p"])
                    old = self.read_target(tgt)
                    ps = old[3] if old[0] == "enum" else ()
                    self.write_target(tgt, ("enum", st["v"], pc, ps))
                elif k == "intrinsic":
                    if "copy_nonoverlapping" in st.get("d", ""):
                        raise Imprecise("copy_nonoverlapping")
            t = bl["term"]
            k = t["t"]
            if k == "goto" or k == "drop":
                bb = t["to"]
                continue
            if k == "return":
                rv = self.mem[fid].get(0, UNDEF)
                events.append((add_deps(rv, pc), self.snapshot(), pc))
                return False, pc, events
            if k in ("unreachable", "resume", "abort"):
                return False, pc, events
            if k == "assert":
                c = self._scalar(self.operand(fr, t["c"]))
                if c[1] is not None:
                    if bool(c[1]) == bool(t["exp"]):
                        bb = t["to"]
                        continue
                    return False, pc, events       # the path panics
                # termination-insensitive: a run that continues past the check is compared only with runs that also
                # continue; the condition adds no dependence to what follows (see the module docstring)
                bb = t["to"]
                continue
            if k == "switch":
                d = self._scalar(self.operand(fr, t["d"]))
                if d[1] is not None:
                    tgt = t["otherwise"]
                    dv = d[1]
                    if dv < 0 and t.get("dty") in INT_BITS:
                        dv &= (1 << INT_BITS[t["dty"]]) - 1
                    for val, to in t["vals"]:
                        if val == dv:
                            tgt = to
                            break
                    bb = tgt
                    continue
                # unknown discriminant: follow every successor up to the immediate post-dominator, join there
                J = ipdoms(body)[bb]
                succs = _succs(bl)
                self.split_depth += 1
                skey = (fid, bb)
                self.split_at[skey] = self.split_at.get(skey, 0) + 1
                if self.split_depth > self.MAX_SPLIT or self.split_at[skey] > self.MAX_SAME_SPLIT:
                    raise Imprecise("nesting of data-dependent branches exceeds the budget (unbounded data-dependent loop)")
                snap = self.snapshot()
                pc2 = pc | d[2]
                reached = []
                all_reached = True
                for s_ in succs:
                    self.restore(snap)
                    ok, pce, ev = self.exec_blocks(fr, s_, J, pc2)
                    events += ev
                    if ok:
                        reached.append((self.snapshot(), pce))
                    elif ev:
                        all_reached = False        # some path of this successor returned from the function
                    # a successor that only diverges (panics) constrains nothing: termination-insensitive
                self.split_depth -= 1
                self.split_at[skey] -= 1
                if not reached:
                    return False, pc2, events
                m = reached[0][0]
                pcs = reached[0][1]
                for m2, p2 in reached[1:]:
                    m = join_mem(m, m2)
                    pcs = pcs | p2
                self.mem = m
                # scope of the branch closes at J only when every successor reconverges there without leaving
                if all_reached and J is not None:
                    pc = pc | (pcs - pc2)
                else:
                    pc = pcs
                if J is None:
                    return False, pc, events
                if J == stop:
                    return True, pc, events
                bb = J
                continue
            if k == "call":
                try:
                    ret, pc = self.call(fr, bb, t, pc)
                except Diverge:
                    return False, pc, events
                if t["to"] is None:
                    return False, pc, events
                self.write_target(self.resolve(fid, t["dest"]), add_deps(ret, pc))
                bb = t["to"]
                continue
            raise Imprecise("terminator %s" % k)

    # ---------------------------------------------------------------- calls
    def call(self, fr, bb, t, pc):
        F = self.F
        args = [self.operand(fr, a) for a in t["args"]]
        f = t["f"]
        fdef = None
        if f[0] == "k" and "fn" in f[1]:
            fdef = f[1]["fn"]
        target = None
        if fr.get("inst") is not None:
            target = F.calls_of(fr["inst"]).get(bb)
        path = F.defs[fdef]["path"] if fdef is not None else "?"
        if target is None and fr.get("inst") is None and fdef is not None and F.defs[fdef].get("local") and fdef in F.root_inst \
                and "blocks" in (F.bodies.get(fdef) or {}) and F.defs[fdef]["kind"] in ("Fn", "AssocFn"):
            # a call inside a constant's body (no instance edges): the callee's identity instance, with the
            # generic arguments written at the call evaluated in the constant's environment
            names = F.defs[fdef].get("generics") or []
            env = {}
            for nm, a in zip(names, f[1].get("args", [])):
                v = self.eval_const_str(a, fr["env"]) if not isinstance(a, (dict, list)) else None
                if v is not None:
                    env[nm] = v
            return self.exec_fn(F.root_inst[fdef], args, pc, fr, env_override=env)
        if target is not None:
            ins = F.instances[target]
            body = F.bodies.get(ins["d"])
            if ins.get("k") == "item" and body is not None and "blocks" in body:
                return self.exec_fn(target, args, pc, fr)
            if body is not None and "blocks" in body and ins.get("k") in ("closure", "closure_call", "fnitem"):
                return self.exec_fn(target, args, pc, fr)
            path = F.defs[ins["d"]]["path"]
        return self.extern(fr, path, t, args, pc)

    def exec_fn(self, inst_idx, args, pc, parent, env_override=None):
        F = self.F
        if len(self.mem) > self.MAX_DEPTH:
            raise Imprecise("call depth")
        ins = F.instances[inst_idx]
        body = F.bodies[ins["d"]]
        env = env_override if env_override is not None else self.genv(inst_idx, parent["env"] if parent else {})
        frame = {}
        self.mem.append(frame)
        fid = len(self.mem) - 1
        for i, a in enumerate(args):
            frame[i + 1] = a
        argc = body.get("argc", len(args))
        if argc != len(args):
            # closure call ABI: (closure, (args...)) is spread
            if len(args) == 2 and args[1][0] == "agg" and argc == 1 + len(args[1][1]):
                frame.clear()
                frame[1] = args[0]
                for i, a in enumerate(args[1][1]):
                    frame[i + 2] = a
            else:
                self.mem.pop()
                raise Imprecise("argument count mismatch calling %s" % F.defs[ins["d"]]["path"])
        fr = dict(body=body, env=env, root=False, inst=inst_idx, fid=fid)
        try:
            _ok, pce, events = self.exec_blocks(fr, 0, None, pc)
        except Exception:
            del self.mem[fid:]
            raise
        if not events:
            del self.mem[fid:]
            raise Diverge()
        ret = UNDEF
        m = None
        pco = pc
        for rv, mm, p in events:
            ret = join(ret, rv)
            m = mm if m is None else join_mem(m, mm)
            pco = pco | p
        esc = []
        self.refs_in(ret, esc)
        if any(tg[0] >= fid for tg in esc):
            raise Imprecise("reference to a callee local escapes")
        self.mem = m[:fid]
        return ret, pco

    def deep_deps(self, v, seen=None, depth=0):
        """deps of a value including everything reachable through references"""
        if v[0] == "ref":
            if v[1] is None:
                raise Imprecise("unknown pointer passed to an external function")
            if seen is None:
                seen = set()
            if v[1] in seen or depth > 6:
                return E
            seen.add(v[1])
            return self.deep_deps(self.read_target(v[1]), seen, depth + 1)
        if v[0] in ("agg", "arr", "iter"):
            d = v[2] if v[0] == "iter" else E
            for x in v[1]:
                d = d | self.deep_deps(x, seen, depth)
            return d
        if v[0] == "enum":
            d = v[2]
            for _vi, fs in v[3]:
                for x in fs:
                    d = d | self.deep_deps(x, seen, depth)
            return d
        return alldeps(v)

    def refs_in(self, v, out):
        if v[0] == "ref" and v[1] is not None:
            out.append(v[1])
        elif v[0] in ("agg", "arr", "iter"):
            for x in v[1]:
                self.refs_in(x, out)
        elif v[0] == "enum":
            for _vi, fs in v[3]:
                for x in fs:
                    self.refs_in(x, out)

    # ---------------------------------------------------------------- iterators and closures (std adaptors without MIR)
    def call_closure(self, fr, clos, args, pc, cell=None):
        """run the MIR of a closure value on `args`; None when it is not a closure this analysis can enter.
        `cell`: a one-element list that keeps the heap cell of an FnMut closure across calls (its by-value state persists)"""
        if not (clos[0] == "agg" and isinstance(clos[2], tuple) and clos[2] and clos[2][0] == "closure" and len(clos[2]) > 2 and clos[2][2] is not None):
            return None
        inst = clos[2][2]
        body = self.F.bodies.get(self.F.instances[inst]["d"])
        if body is None or "blocks" not in body:
            return None
        selfty = body["locals"][1] if len(body["locals"]) > 1 else ""
        if selfty.startswith("&"):
            if cell is not None and cell:
                key = cell[0]
            else:
                key = "closure%d" % len(self.mem[0])
                self.mem[0][key] = clos
                if cell is not None:
                    cell.append(key)
            selfarg = ("ref", (0, key, ()))
        else:
            selfarg = clos
        return self.exec_fn(inst, [selfarg] + list(args), pc, fr)

    def _as_iter(self, v):
        """an iterator model for a value: itself, or the elements of the array / slice a reference points to"""
        if v[0] == "iter":
            return v
        if v[0] == "ref" and v[1] is not None:
            t_ = self.read_target(v[1])
            if t_[0] == "arr":
                return ("iter", tuple(("ref", (v[1][0], v[1][1], v[1][2] + (("i", j, E),))) for j in range(len(t_[1]))), E)
            if t_[0] == "iter":
                return t_
        if v[0] == "arr":
            return ("iter", tuple(v[1]), E)
        if v[0] == "agg" and v[2] == "Range" and len(v[1]) == 2 and v[1][0][0] == "s" and v[1][1][0] == "s" \
                and v[1][0][1] is not None and v[1][1][1] is not None and v[1][1][1] - v[1][0][1] <= 4096:
            ty = v[1][0][3]
            return ("iter", tuple(S(k_, v[1][0][2] | v[1][1][2], ty) for k_ in range(v[1][0][1], max(v[1][0][1], v[1][1][1]))), E)
        return None

    def _iter_model(self, fr, path, name, t, args, pc):
        """exact dependence models of the slice / range iterators and the order-only adaptors; None = not modelled here"""
        if path in ("core::slice::<impl [T]>::iter", "core::slice::<impl [T]>::iter_mut") or \
                (name == "into_iter" and ("IntoIterator for &'a [T]" in path or "IntoIterator for &'a mut [T]" in path or "IntoIterator for [T; N]" in path
                                          or "IntoIterator for &'a [T; N]" in path or "IntoIterator for &'a mut [T; N]" in path or path == "<I as core::iter::IntoIterator>::into_iter")):
            it = self._as_iter(args[0]) if args else None
            return it
        if path == "core::cmp::Ordering::then_with" and len(args) == 2:
            before = self.snapshot()
            r = self.call_closure(fr, args[1], [], pc)
            if r is None:
                return None
            ret2, _pc2 = r
            self.mem = join_mem(before, self.mem)          # the closure runs only when the first ordering is Equal
            return ("enum", None, alldeps(args[0]) | alldeps(ret2), ())
        if not path.startswith("core::iter::Iterator::") and not (name == "next" and " as core::iter::Iterator>::next" in path or "impl core::iter::Iterator for" in path and name == "next"):
            return None
        if name == "next" and len(args) == 1 and args[0][0] == "ref" and args[0][1] is not None:
            cur = self.read_target(args[0][1])
            it = cur if cur[0] == "iter" else (self._as_iter(cur) if cur[0] == "agg" and cur[2] == "Range" else None)
            if it is None:
                return None
            if not it[1]:
                return ("enum", 0, it[2], ((0, ()),))
            self.write_target(args[0][1], ("iter", it[1][1:], it[2]))
            return ("enum", 1, it[2], ((1, (add_deps(it[1][0], it[2]),)),))
        if not args:
            return None
        it = self._as_iter(args[0])
        if it is None:
            return None
        if name == "rev" and len(args) == 1:
            return ("iter", it[1][::-1], it[2])
        if name in ("skip", "take") and len(args) == 2:
            n_ = self._scalar(args[1])
            if n_[1] is None:
                return None
            return ("iter", it[1][n_[1]:] if name == "skip" else it[1][:n_[1]], it[2] | n_[2])
        if name == "enumerate" and len(args) == 1:
            return ("iter", tuple(("agg", (S(j, E, "usize"), x), None) for j, x in enumerate(it[1])), it[2])
        if name == "zip" and len(args) == 2:
            other = self._as_iter(args[1])
            if other is None:
                return None
            m_ = min(len(it[1]), len(other[1]))
            return ("iter", tuple(("agg", (x, y), None) for x, y in zip(it[1][:m_], other[1][:m_])), it[2] | other[2])
        if name in ("copied", "cloned") and len(args) == 1:
            out_ = []
            for x in it[1]:
                out_.append(self.read_target(x[1]) if x[0] == "ref" and x[1] is not None else x)
            return ("iter", tuple(out_), it[2])
        if name in ("cmp", "partial_cmp", "eq", "ne", "lt", "le", "gt", "ge") and len(args) == 2:
            other = self._as_iter(args[1])
            if other is None:
                return None
            d_ = self.deep_deps(it) | self.deep_deps(other)
            if name == "cmp":
                return ("enum", None, d_, ())
            if name == "partial_cmp":
                return ("enum", None, d_, ((0, ()), (1, (("enum", None, d_, ()),))))
            return S(None, d_, "bool")
        if name == "fold" and len(args) == 3:
            acc = args[1]
            cell = []
            for x in it[1]:
                r = self.call_closure(fr, args[2], [acc, add_deps(x, it[2])], pc, cell)
                if r is None:
                    return None
                acc, pc = r
            return acc
        return None

    def _prim_lanes(self, name, ty, args, sc):
        """byte-exact dependence of the primitive methods that move or combine bytes (None: no such model)"""
        n = nbytes(ty)
        if n is None:
            return None
        if name in ("from_be_bytes", "from_le_bytes", "from_ne_bytes") and len(args) == 1:
            a = args[0]
            if a[0] == "arr" and len(a[1]) == n:
                bs = [alldeps(x) for x in a[1]]
                if name == "from_be_bytes":
                    bs = bs[::-1]
                return SL(None, ty, bs)
            return None
        if not sc or sc[0][0] != "s":
            return None
        x = sc[0]
        if not (len(x) > 4 and x[4] is not None) and name not in ("to_be_bytes", "to_le_bytes", "to_ne_bytes"):
            return None
        lx = lanes_of(x, ty)
        if lx is None:
            return None
        if name in ("to_be_bytes", "to_le_bytes", "to_ne_bytes"):
            bs = list(lx)
            if name == "to_be_bytes":
                bs = bs[::-1]
            return ("arr", tuple(S(None, b, "u8") for b in bs))
        if name in ("swap_bytes", "reverse_bits"):
            return SL(None, ty, list(lx)[::-1])
        if name in ("to_le", "from_le"):
            return SL(x[1], ty, list(lx))
        if name in ("to_be", "from_be"):
            return SL(None, ty, list(lx)[::-1])
        if name in ("wrapping_add", "wrapping_sub", "wrapping_mul", "overflowing_add", "overflowing_sub", "overflowing_mul") and len(sc) == 2 and sc[1][0] == "s":
            ly = lanes_of(sc[1], ty)
            if ly is None:
                return None
            v = SL(None, ty, self._prefix(lx, ly))
            if name.startswith("overflowing"):
                return ("agg", (v, S(None, x[2] | sc[1][2], "bool")), None)
            return v
        if name in ("rotate_left", "rotate_right", "wrapping_shl", "wrapping_shr") and len(sc) == 2 and sc[1][0] == "s":
            y = sc[1][1]
            sd = sc[1][2]
            if y is None:
                return SL(None, ty, [x[2] | sd] * n)
            y %= 8 * n
            if name in ("wrapping_shl", "wrapping_shr"):
                return self._with_lanes("Shl" if name == "wrapping_shl" else "Shr", x, S(y, sd, "u32"), None, x[2] | sd, ty)
            q, rem = divmod(y, 8)
            lanes = []
            for i in range(n):
                if name == "rotate_left":
                    d_ = lx[(i - q) % n] | (lx[(i - q - 1) % n] if rem else E)
                else:
                    d_ = lx[(i + q) % n] | (lx[(i + q + 1) % n] if rem else E)
                lanes.append(d_ | sd)
            return SL(None, ty, lanes)
        return None

    def extern(self, fr, path, t, args, pc):
        """a callee without MIR: modelled by name where the model is exact for dependence, conservative otherwise"""
        self.ext_seen[path] = self.ext_seen.get(path, 0) + 1
        name = path.split("::")[-1]
        sc = [self._scalar(a) if a[0] != "ref" else a for a in args]
        if path.startswith("core::panicking::") or name in ("panic_fmt", "panic", "panic_display", "unreachable_unchecked", "panic_explicit"):
            raise Diverge()
        if path.startswith("core::fmt::Arguments") or path.startswith("core::fmt::rt::Argument"):
            return TOP(frozenset().union(*[self.deep_deps(a) for a in args]) if args else E), pc
        if path == "core::hint::must_use" or path in ("core::convert::identity",):
            return args[0], pc
        if path in ("core::hint::assert_unchecked",):
            return ("zst", None), pc
        # ---- Option / Result plumbing
        if path.startswith("core::option::Option::<T>::") or path.startswith("core::result::Result::<T, E>::"):
            a0 = args[0]
            if a0[0] == "ref" and a0[1] is not None:
                a0 = self.read_target(a0[1])
            if a0[0] == "enum":
                ps = dict(a0[3])
                some = 1 if "option" in path else 0
                if name in ("unwrap", "expect", "unwrap_unchecked"):
                    if a0[1] is not None and a0[1] != some:
                        raise Diverge()
                    fs = ps.get(some)
                    if fs:
                        return add_deps(fs[0], a0[2]), (pc | a0[2] if a0[1] is None else pc)
                if name in ("is_some", "is_ok"):
                    return S(None if a0[1] is None else int(a0[1] == some), a0[2], "bool"), pc
                if name in ("is_none", "is_err"):
                    return S(None if a0[1] is None else int(a0[1] != some), a0[2], "bool"), pc
        # ---- primitive conversions and comparisons
        if path.startswith("core::convert::num::") and name == "try_from":
            import re as _re
            m_ = _re.match(r"core::convert::num::(?:\w+::)*<impl core::convert::TryFrom<(\w+)> for (\w+)>::try_from$", path)
            a0 = self._scalar(args[0])
            if m_ and m_.group(2) in INT_BITS:
                to = m_.group(2)
                if a0[1] is not None:
                    if wrap(a0[1], to) == a0[1]:
                        return ("enum", 0, a0[2], ((0, (S(a0[1], a0[2], to),)),)), pc
                    return ("enum", 1, a0[2], ((1, (("zst", None),)),)), pc
                return ("enum", None, a0[2], ((0, (S(None, a0[2], to),)), (1, (("zst", None),)))), pc
        if path.startswith("core::cmp::impls::<impl core::cmp::Partial") or path.startswith("core::cmp::impls::<impl core::cmp::Ord for"):
            vs = []
            for a in args:
                while a[0] == "ref" and a[1] is not None:
                    a = self.read_target(a[1])
                vs.append(self._scalar(a))
            if len(vs) == 2:
                x, y = vs[0][1], vs[1][1]
                d_ = vs[0][2] | vs[1][2]
                if name in ("lt", "le", "gt", "ge", "eq", "ne"):
                    r_ = None
                    if x is not None and y is not None:
                        r_ = int({"lt": x < y, "le": x <= y, "gt": x > y, "ge": x >= y, "eq": x == y, "ne": x != y}[name])
                    return S(r_, d_, "bool"), pc
                if name in ("max", "min") and x is not None and y is not None:
                    return S(max(x, y) if name == "max" else min(x, y), d_, vs[0][3]), pc
        # ---- slices
        if path in ("core::slice::<impl [T]>::len", "core::str::<impl str>::len", "core::array::<impl [T; N]>::len"):
            a0 = args[0]
            if a0[0] == "ref" and a0[1] is not None:
                tv = self.read_target(a0[1])
                if tv[0] == "arr":
                    return S(len(tv[1]), E, "usize"), pc
            return S(None, E, "usize"), pc
        if path in ("core::slice::<impl [T]>::is_empty", "core::str::<impl str>::is_empty"):
            a0 = args[0]
            if a0[0] == "ref" and a0[1] is not None:
                tv = self.read_target(a0[1])
                if tv[0] == "arr":
                    return S(int(len(tv[1]) == 0), E, "bool"), pc
            return S(None, E, "bool"), pc
        if path == "core::str::<impl str>::as_bytes":
            return args[0], pc
        if path == "core::mem::size_of":
            return S(None, E, "usize"), pc
        # ---- primitive integer methods: dependence = all operands; concrete where the operands are
        if path.startswith("core::num::<impl "):
            ty = path[len("core::num::<impl "):].split(">")[0]
            lr = self._prim_lanes(name, ty, args, sc)
            if lr is not None:
                return lr, pc
            vals = [x[1] if x[0] == "s" else None for x in sc]
            deps = E
            for a in args:
                deps = deps | self.deep_deps(a)
            r = None
            if all(v is not None for v in vals) and ty in INT_BITS:
                b = INT_BITS[ty]
                x = vals[0]
                y = vals[1] if len(vals) > 1 else None
                try:
                    if name == "saturating_sub":
                        r = max(x - y, 0) if ty not in SIGNED else None
                    elif name == "wrapping_sub":
                        r = wrap(x - y, ty)
                    elif name == "wrapping_add":
                        r = wrap(x + y, ty)
                    elif name == "wrapping_mul":
                        r = wrap(x * y, ty)
                    elif name == "min":
                        r = min(x, y)
                    elif name == "max":
                        r = max(x, y)
                    elif name == "trailing_zeros":
                        r = b if x == 0 else ((x & -x).bit_length() - 1)
                    elif name == "leading_zeros":
                        r = b - (x & ((1 << b) - 1)).bit_length()
                    elif name == "is_power_of_two":
                        r = int(x > 0 and x & (x - 1) == 0)
                    elif name == "count_ones":
                        r = bin(x & ((1 << b) - 1)).count("1")
                    elif name == "is_negative":
                        r = int(x < 0)
                    elif name == "pow":
                        r = wrap(x ** y, ty)
                    elif name == "ilog2":
                        r = x.bit_length() - 1 if x > 0 else None
                    elif name == "div_ceil":
                        r = -(-x // y) if y else None
                    elif name == "abs_diff":
                        r = abs(x - y)
                    elif name == "wrapping_shr":
                        r = wrap((x & ((1 << b) - 1)) >> (y % b), ty) if ty not in SIGNED else wrap(x >> (y % b), ty)
                    elif name == "wrapping_shl":
                        r = wrap(x << (y % b), ty)
                    elif name in ("checked_sub", "checked_add", "checked_mul", "checked_shr", "checked_shl"):
                        if name == "checked_sub":
                            z = x - y
                        elif name == "checked_add":
                            z = x + y
                        elif name == "checked_mul":
                            z = x * y
                        elif name == "checked_shr":
                            z = (x >> y) if 0 <= y < b else None
                        else:
                            z = wrap(x << y, ty) if 0 <= y < b else None
                        if z is None or wrap(z, ty) != z:
                            return ("enum", 0, deps, ((0, ()),)), pc
                        return ("enum", 1, deps, ((1, (S(z, deps, ty),)),)), pc
                    elif name in ("overflowing_add", "overflowing_sub", "overflowing_mul"):
                        z = {"overflowing_add": x + y, "overflowing_sub": x - y, "overflowing_mul": x * y}[name]
                        return ("agg", (S(wrap(z, ty), deps, ty), S(int(wrap(z, ty) != z), deps, "bool")), None), pc
                except Exception:
                    r = None
            if name.startswith("checked_"):
                return ("enum", None, deps, ((0, ()), (1, (S(None, deps, ty),)))), pc
            if name.startswith("overflowing_") or name in ("carrying_add", "borrowing_sub", "widening_mul", "carrying_mul"):
                return ("agg", (S(None, deps, ty), S(None, deps, None)), None), pc
            if name in ("to_be_bytes", "to_le_bytes", "to_ne_bytes"):
                return ("arr", tuple(S(None, deps, "u8") for _ in range(INT_BITS.get(ty, 64) // 8))), pc
            rty = "bool" if name.startswith("is_") else ("u32" if name in ("trailing_zeros", "leading_zeros", "count_ones", "count_zeros", "ilog2", "leading_ones", "trailing_ones") else ty)
            return S(r, deps, rty), pc
        # ---- iterators / closures
        try:
            im = self._iter_model(fr, path, name, t, args, pc)
        except Diverge:
            raise
        if im is not None:
            return im, pc
        # ---- conservative default
        body = fr["body"]
        for pl in [a_[1] for a_ in t["args"] if a_[0] in ("c", "m")] + [t["dest"]]:
            if not pl[1]:
                lty = body["locals"][pl[0]]
                if "*const" in lty or "*mut" in lty or "NonNull" in lty:
                    raise Imprecise("a raw pointer crosses an external call (%s)" % path)
        deps = pc
        for a in args:
            deps = deps | self.deep_deps(a)
        refs = []
        for a in args:
            self.refs_in(a, refs)
        if refs:
            for a_op, a in zip(t["args"], args):
                rr = []
                self.refs_in(a, rr)
                if not rr:
                    continue
                mutable = True
                if a_op[0] in ("c", "m") and not a_op[1][1]:
                    lty = body["locals"][a_op[1][0]]
                    if lty.startswith("&") and not lty.startswith("&mut") and "Cell" not in lty:
                        mutable = False
                if mutable:
                    for tgt in rr:
                        old = self.read_target(tgt)
                        if old[0] == "ref":
                            raise Imprecise("external call may overwrite a pointer")
                        self.write_target(tgt, TOP(deps | alldeps(old)))
        return TOP(deps), pc


# ------------------------------------------------------------------------------------------------ front end
class Heap:
    """frame 0 of every analysis: cells holding the pointees of reference parameters"""

    def __init__(self):
        self.cells = {}

    def cell(self, v):
        i = len(self.cells)
        self.cells[i] = v
        return ("ref", (0, i, ()))


def digits(label, n, ty=None):
    """n input digits; with a digit type each digit carries per-byte leaves `label[j]#b` next to its digit leaf `label[j]`"""
    w = nbytes(ty) if ty else None
    if w:
        return ("arr", tuple(SL(None, ty, [frozenset(["%s[%d]" % (label, j), "%s[%d]#%d" % (label, j, b)]) for b in range(w)]) for j in range(n)))
    return ("arr", tuple(S(None, frozenset(["%s[%d]" % (label, j)]), ty) for j in range(n)))


def buint(label, n, ty=None):
    return ("agg", (digits(label, n, ty),), "BUint")


def bint(label, n, ty=None):
    return ("agg", (buint(label, n, ty),), "BInt")


def leaf(label, ty=None):
    w = nbytes(ty) if ty else None
    if w and w > 1:
        return SL(None, ty, [frozenset([label, "%s#%d" % (label, b)]) for b in range(w)])
    return S(None, frozenset([label]), ty)


def conc(v, ty):
    return S(v, E, ty)


def analyse(F, fid_or_inst, shape, make_args):
    """-> (return value, interpreter) ; make_args(heap) -> list of argument values"""
    if isinstance(fid_or_inst, int):
        inst = fid_or_inst
    else:
        inst = F.root_of(fid_or_inst)
    if inst is None:
        raise KeyError(fid_or_inst)
    I = Interp(F, shape)
    heap = Heap()
    args = make_args(heap)
    I.mem = [dict(heap.cells)]
    ins = F.instances[inst]
    body = F.bodies.get(ins["d"])
    if body is None or "blocks" not in body:
        raise Imprecise("no MIR body")
    root = dict(body=body, env=dict(shape), root=True, inst=inst, fid=0)
    ret, _pc = I.exec_fn(inst, args, E, root)
    I.final_heap = I.mem[0]
    return ret, I


def select(v, path):
    """project an abstract return value: ints = field / element, ('some',) / ('ok',) = payload, 'discr' = discriminant deps"""
    for e in path:
        if v[0] == "top":
            return v
        if e == "discr":
            if v[0] == "enum":
                return S(v[1], v[2], None)
            return S(None, alldeps(v), None)
        if isinstance(e, tuple) and e[0] == "lane":
            if v[0] == "s":
                lv = lanes_of(v)
                if lv is not None and e[1] < len(lv):
                    return S(None, lv[e[1]], "u8")
                return S(None, v[2], "u8")
            return TOP(alldeps(v))
        if isinstance(e, tuple):
            vi = {"some": 1, "ok": 0, "err": 1, "none": 0}[e[0]]
            if v[0] == "enum":
                ps = dict(v[3])
                if vi in ps:
                    v = ("agg", tuple(add_deps(x, v[2]) for x in ps[vi]), None)
                    continue
                return None
            return TOP(alldeps(v))
        if v[0] in ("agg", "arr"):
            if e >= len(v[1]):
                return None
            v = v[1][e]
            continue
        return TOP(alldeps(v))
    return v


# ------------------------------------------------------------------------------------------------ self-check
class _MiniFacts:
    """just enough of analysis.facts.Facts for one synthetic body"""

    def __init__(self, body):
        self.defs = [dict(path="selfcheck::f", kind="Fn", local=True, generics=[])]
        self.bodies = {0: body}
        self.instances = [dict(d=0, a=[], k="item", c=[])]
        self.root_inst = {0: 0}
        self.adts = {}

    def calls_of(self, _i):
        return {}

    def root_of(self, _fid):
        return 0


def _synthetic_add(with_carry):
    def L(i):
        return [i, []]

    def c(l):
        return ["c", L(l)]

    def k(v, ty="usize"):
        return ["k", {"ty": ty, "v": v, "size": 8}]

    def asg(l, rv, proj=None):
        return {"s": "assign", "p": [l, proj or []], "rv": rv}
    # locals: 0 ret, 1 a, 2 b, 3 out, 4 carry, 5 i, 6 cond, 7 x, 8 y, 9 t, 10 t2, 11 lt
    b0 = {"st": [asg(3, {"r": "repeat", "a": k(0, "u64"), "n": "2"}), asg(4, {"r": "use", "a": k(0, "u64")}), asg(5, {"r": "use", "a": k(0)})],
          "term": {"t": "goto", "to": 1}}
    b1 = {"st": [asg(6, {"r": "bin", "op": "Lt", "a": c(5), "b": k(2)})],
          "term": {"t": "switch", "d": c(6), "dty": "bool", "vals": [[0, 3]], "otherwise": 2}}
    body = [asg(7, {"r": "use", "a": ["c", [1, [{"i": 5}]]]}), asg(8, {"r": "use", "a": ["c", [2, [{"i": 5}]]]}),
            asg(9, {"r": "bin", "op": "Add", "a": c(7), "b": c(8)})]
    if with_carry:
        body.append(asg(10, {"r": "bin", "op": "Add", "a": c(9), "b": c(4)}))
    else:
        body.append(asg(10, {"r": "use", "a": c(9)}))
    body += [asg(3, {"r": "use", "a": c(10)}, [{"i": 5}]), asg(11, {"r": "bin", "op": "Lt", "a": c(10), "b": c(7)}),
             asg(4, {"r": "cast", "k": "IntToInt", "a": c(11), "from": "bool", "ty": "u64"}),
             asg(5, {"r": "bin", "op": "Add", "a": c(5), "b": k(1)})]
    b2 = {"st": body, "term": {"t": "goto", "to": 1}}
    b3 = {"st": [asg(0, {"r": "use", "a": c(3)})], "term": {"t": "return"}}
    return {"def": 0, "promoted": [], "argc": 2, "locals": ["[u64; 2]"] * 4 + ["u64", "usize", "bool"] + ["u64"] * 4 + ["bool"],
            "names": [], "blocks": [b0, b1, b2, b3]}


_SELFCHECK_DONE = [False]


def selfcheck():
    """the rule must see a dropped carry (digit 1 independent of digit 0 of the operands) and must not see one in the twin
    that propagates it; run once per process so that the rule can never pass vacuously"""
    if _SELFCHECK_DONE[0]:
        return
    res = {}
    for wc in (True, False):
        F = _MiniFacts(_synthetic_add(wc))
        ret, _I = analyse(F, 0, {}, lambda h: [digits("a", 2), digits("b", 2)])
        res[wc] = alldeps(select(ret, (1,)))
    if not ({"a[0]", "b[0]", "a[1]", "b[1]"} <= res[True]):
        raise AssertionError("rule D self-check: the carry-propagating twin lost a dependence: %s" % sorted(res[True]))
    if "a[0]" in res[False] or "b[0]" in res[False] or not ({"a[1]", "b[1]"} <= res[False]):
        raise AssertionError("rule D self-check: the dropped carry was not seen: %s" % sorted(res[False]))
    _SELFCHECK_DONE[0] = True

"""Per-body CFG helpers: successor lists, constant-branch pruning, acyclicity."""


def const_locals(body):
    """local -> int for locals assigned exactly once, by `use` of a scalar constant, never borrowed."""
    assigned = {}
    bad = set()
    for bl in body["blocks"]:
        if "cleanup" in bl:
            continue
        for st in bl["st"]:
            if st["s"] != "assign":
                continue
            p = st["p"]
            rv = st["rv"]
            if rv["r"] in ("ref", "rawptr"):
                bad.add(rv["p"][0])
            if p[1]:
                bad.add(p[0])
                continue
            l = p[0]
            if l in assigned:
                bad.add(l)
                continue
            v = None
            if rv["r"] == "use" and rv["a"][0] == "k" and "v" in rv["a"][1] and "uneval" not in rv["a"][1]:
                v = rv["a"][1]["v"]
            assigned[l] = v
        t = bl["term"]
        if t["t"] == "call":
            d = t["dest"]
            if not d[1]:
                if d[0] in assigned:
                    bad.add(d[0])
                assigned[d[0]] = None
    return {l: v for l, v in assigned.items() if v is not None and l not in bad}


def switch_const(term, consts):
    """If the switch discriminant is a known constant return its value, else None."""
    d = term["d"]
    if d[0] == "k":
        k = d[1]
        if "v" in k and "uneval" not in k:
            return k["v"]
        return None
    place = d[1]
    if not place[1] and place[0] in consts:
        return consts[place[0]]
    return None


def successors(body, bbi, consts=None, prune=True):
    bl = body["blocks"][bbi]
    if "cleanup" in bl:
        return []
    t = bl["term"]
    k = t["t"]
    if k == "goto" or k == "drop":
        return [t["to"]]
    if k == "switch":
        if prune:
            v = switch_const(t, consts or {})
            if v is not None:
                for val, tgt in t["vals"]:
                    if val == v:
                        return [tgt]
                return [t["otherwise"]]
        out = [tgt for _, tgt in t["vals"]]
        out.append(t["otherwise"])
        return out
    if k == "call":
        return [t["to"]] if t["to"] is not None else []
    if k == "assert":
        return [t["to"]]
    return []


def reachable(body, prune=True):
    consts = const_locals(body) if prune else {}
    seen = set()
    stack = [0]
    while stack:
        b = stack.pop()
        if b in seen:
            continue
        seen.add(b)
        for s in successors(body, b, consts, prune):
            if s not in seen:
                stack.append(s)
    return seen


def is_acyclic(body, prune=True):
    consts = const_locals(body) if prune else {}
    color = {}
    # iterative DFS with colours
    stack = [(0, iter(successors(body, 0, consts, prune)))]
    color[0] = 1
    while stack:
        b, it = stack[-1]
        adv = False
        for s in it:
            c = color.get(s, 0)
            if c == 1:
                return False
            if c == 0:
                color[s] = 1
                stack.append((s, iter(successors(body, s, consts, prune))))
                adv = True
                break
        if not adv:
            color[b] = 2
            stack.pop()
    return True

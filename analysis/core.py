"""Obligations, context and the generic rule evaluators shared by the per-property rule modules."""
import time

from . import facts, nf, panics, spec

PROVED, VIOLATED, UNDECIDED = "PROVED", "VIOLATED", "UNDECIDED"


class Ob:
    __slots__ = ("key", "prop", "family", "config", "fid", "status", "detail", "loc", "extra")

    def __init__(self, key, prop, family, config, fid, status, detail, loc=None, extra=None):
        self.key, self.prop, self.family, self.config, self.fid = key, prop, family, config, fid
        self.status, self.detail, self.loc, self.extra = status, detail, loc, extra

    def as_dict(self):
        d = dict(key=self.key, family=self.family, config=self.config, function=self.fid, status=self.status,
                 detail=self.detail, loc=self.loc)
        if self.extra:
            d.update(self.extra)
        return d


class KCtx:
    """Everything computed for one configuration."""

    def __init__(self, config, repo=None):
        self.config = config
        self.F = facts.load(config, repo)
        self.debug = self.F.debug
        self.P = panics.PanicAnalysis(self.F)
        self.S = nf.Summarizer(self.F, self.P, inline=True)
        self.E = spec.SpecEval(self.S)

    LEVELS = (0, 1, 2, 3, None)

    def code_levels(self, inst):
        return [self.S.summary(inst, b) for b in self.LEVELS]

    def spec_levels(self, term):
        return [self.E.tree(term, b) for b in self.LEVELS]


class Ctx:
    def __init__(self, repo=None):
        self.repo = repo
        self._k = {}
        self.t0 = time.time()

    def k(self, config):
        if config not in self._k:
            self._k[config] = KCtx(config, self.repo)
        return self._k[config]


def missing(prop, family, K, fid, what="function"):
    return Ob("%s:%s:%s:%s:anchor-missing" % (prop, family, K.config, fid), prop, family, K.config, fid, VIOLATED,
              "anchor-missing: %s `%s` named by the spec does not exist in configuration %s" % (what, fid, K.config))


# ---------------------------------------------------------------- T rows (content dependence)
def t_row(K, prop, fid, soft=False, source_locals=(1,), content_locals=(), any_err=False, what=None):
    """No branch of `fid` rejects its input (overflow kind / None) without depending on the input's bytes
    (analysis/taint.py).  One obligation per function; the detail lists every offending branch."""
    from . import taint
    F = K.F
    key = "%s:T:%s:%s:content-independent-rejection" % (prop, K.config, fid)
    d = F.lookup(fid)
    if d is None or d not in F.bodies:
        if soft:
            return Ob(key, prop, "T", K.config, fid, UNDECIDED, "internal helper `%s` does not exist as a separate function; not decided here" % fid)
        return missing(prop, "T", K, fid)
    taint.selfcheck()
    B = taint.Body(F.bodies[d], list(source_locals), list(content_locals), any_err)
    st = B.stats()
    found = B.content_independent_rejections()
    loc = F.loc(d)
    if found:
        sites = "; ".join("%s: branch bb%d -> bb%d can only fail with %s" % (f[3], f[0], f[1], "/".join(f[2])) for f in found)
        if content_locals:
            return Ob(key, prop, "T", K.config, fid, VIOLATED,
                      "the decision of %d branch(es) does not depend on the converted value (neither data nor control flow from it "
                      "reaches the branch) and one side only rejects: %s - every value is refused on that side, including 0, which "
                      "every target type represents" % (len(found), sites), loc, dict(analysed=st))
        return Ob(key, prop, "T", K.config, fid, VIOLATED,
                  "the decision of %d branch(es) depends on the input only through its length (neither data nor control flow "
                  "from the bytes reaches it) and one side only rejects: %s - every input of such a length is refused whatever "
                  "its digits, including zero-padded numerals of representable values" % (len(found), sites), loc, dict(analysed=st))
    return Ob(key, prop, "T", K.config, fid, PROVED,
              "every branch with a rejecting-only side depends on the bytes of the input (%d reachable blocks, %d branches, %d of them "
              "content dependent)" % (st["blocks"], st["branches"], st["content_dependent_branches"]), loc, dict(analysed=st))


# ---------------------------------------------------------------- D rows (index-sensitive dependence)
INTERNAL_ERRORS = []
D_STATS = {"rows": 0, "imprecise": 0, "steps": 0}


def d_row(K, prop, fid, name, shape, make_args, required, inst=None, soft=False, out_of=None, total=False):
    """Every (output leaf, input leaf) pair in `required` must be a possible dependence of `fid` at this shape
    (analysis/deps.py).  required: list of (path, labels, text); path selects a leaf of the abstract return value
    (`out_of(ret, interp)` may supply the value to select from instead, e.g. what a `&mut self` points to afterwards).
    One obligation per (function, shape); the detail lists every missing pair."""
    from . import deps
    F = K.F
    key = "%s:D:%s:%s:%s" % (prop, K.config, fid, name)
    root = inst if inst is not None else F.root_of(fid)
    if root is None:
        if soft or F.lookup(fid) is not None:
            return Ob(key, prop, "D", K.config, fid, UNDECIDED, "`%s` is not a separate non-generic function here; not decided" % fid)
        return missing(prop, "D", K, fid)
    loc = F.loc(F.instances[root]["d"])
    D_STATS["rows"] += 1
    deps.selfcheck()
    try:
        ret, I = deps.analyse(F, root, shape, make_args)
        val = out_of(ret, I) if out_of else ret
    except deps.Imprecise as e:
        D_STATS["imprecise"] += 1
        return Ob(key, prop, "D", K.config, fid, UNDECIDED, "dependence analysis gave up (%s): nothing is concluded" % e, loc)
    except deps.Diverge:
        if total:
            # every successor of every data-dependent branch was followed and every path ends in a panic (a check that
            # fails for the shape alone, an explicit panic, `unreachable`): no input of this shape returns
            return Ob(key, prop, "D", K.config, fid, VIOLATED,
                      "at shape %s no path through this function returns: it panics for every input of this shape, although the "
                      "contract gives it a result for all of them" % (shape,), loc)
        return Ob(key, prop, "D", K.config, fid, UNDECIDED, "no returning path at this shape: nothing is concluded", loc)
    except RecursionError:
        return Ob(key, prop, "D", K.config, fid, UNDECIDED, "dependence analysis too deep: nothing is concluded", loc)
    except (KeyboardInterrupt, MemoryError):
        raise
    except Exception as e:      # a program shape the interpreter does not anticipate decides nothing
        import traceback
        INTERNAL_ERRORS.append("D %s: %s" % (fid, traceback.format_exc(limit=6)))
        return Ob(key, prop, "D", K.config, fid, UNDECIDED, "internal analysis error (%s: %s); nothing decided for this row" % (type(e).__name__, str(e)[:200]), loc)
    D_STATS["steps"] += I.steps
    missing_pairs = []
    undecided = []
    pairs = 0
    for path, labels, text in required:
        leafv = deps.select(val, path)
        if leafv is None:
            undecided.append("%s: the returned value has no such component" % text)
            continue
        have = deps.alldeps(leafv)
        pairs += len(labels)
        lack = sorted(set(labels) - have)
        if lack:
            missing_pairs.append("%s cannot depend on {%s} (it may depend only on {%s})" % (text, ", ".join(lack), ", ".join(sorted(have))[:300]))
    extra = dict(shape=dict(shape), pairs=pairs, steps=I.steps)
    if missing_pairs:
        return Ob(key, prop, "D", K.config, fid, VIOLATED,
                  "at shape %s no data or control flow carries these inputs to these outputs, although the specified function varies "
                  "with them: %s" % (shape, "; ".join(missing_pairs[:6]) + (" ... (%d more)" % (len(missing_pairs) - 6) if len(missing_pairs) > 6 else "")),
                  loc, extra)
    if undecided:
        return Ob(key, prop, "D", K.config, fid, UNDECIDED, "; ".join(undecided[:3]), loc, extra)
    return Ob(key, prop, "D", K.config, fid, PROVED,
              "all %d required (output leaf, input leaf) dependences are possible at shape %s (%d interpreter steps)" % (pairs, shape, I.steps),
              loc, extra)


# ---------------------------------------------------------------- F rows
def f_row(K, prop, fid, term, tag="", negative=False):
    """Positive row  fid == term  (or negative row  fid =/= term)."""
    F = K.F
    key = "%s:F%s:%s:%s%s" % (prop, "-neg" if negative else "", K.config, fid, (":" + tag) if tag else "")
    root = F.root_of(fid)
    if root is None:
        return missing(prop, "F", K, fid)
    loc = F.loc(F.instances[root]["d"])
    try:
        sl = K.spec_levels(term)
    except spec.MissingAnchor as e:
        return missing(prop, "F", K, str(e))
    cl = K.code_levels(root)
    st, st0, ct, ct0 = sl[-1], sl[0], cl[-1], cl[0]
    extra = dict(code_nf=_clip(nf.show_tree(ct)), spec_nf=_clip(nf.show_tree(st)))
    if ct is None or ct[0] == "?" or not K.S.is_wrapper(root):
        return Ob(key, prop, "F", K.config, fid, UNDECIDED,
                  "function is not a summarisable wrapper (%s)" % ("loop" if not K.S.is_wrapper(root) else ct[1],), loc, extra)
    if negative:
        if ct == st:
            return Ob(key, prop, "F", K.config, fid, VIOLATED,
                      "computes the same function as a documented-inequivalent term: normal form equals %s"
                      % _clip(nf.show_tree(st0), 200), loc, extra)
        return Ob(key, prop, "F", K.config, fid, PROVED, "normal form differs from the inequivalent term", loc, extra)
    status, why = spec.compare(cl, sl, K.debug)
    extra["code_direct"] = _clip(nf.show_tree(ct0))
    return Ob(key, prop, "F", K.config, fid, status, why, loc, extra)


def _clip(s, n=1500):
    return s if len(s) <= n else s[:n] + " ..."


# ---------------------------------------------------------------- P rows
def p_plus(K, prop, fid, cls, tag=""):
    """Required panic class must be reachable (sound: absence proves the function never raises it)."""
    F = K.F
    key = "%s:P+:%s:%s:%s%s" % (prop, K.config, fid, cls, (":" + tag) if tag else "")
    root = F.root_of(fid)
    if root is None:
        return missing(prop, "P+", K, fid)
    res, order = K.P.reach(root)
    loc = F.loc(F.instances[root]["d"])
    alts = cls.split("|")
    for c in alts:
        if c in res:
            site, chain = res[c]
            return Ob(key, prop, "P+", K.config, fid, PROVED, "class %s reachable" % c, loc,
                      dict(witness=[F.inst_label(i) for i in chain], site=site.loc, instances_explored=len(order)))
    # implicit division assert counts for zero_divisor
    if "zero_divisor" in alts:
        for c in ("implicit:DivisionByZero", "implicit:RemainderByZero"):
            if c in res:
                site, chain = res[c]
                return Ob(key, prop, "P+", K.config, fid, PROVED, "class zero_divisor reachable (primitive digit division)", loc,
                          dict(witness=[F.inst_label(i) for i in chain], site=site.loc, instances_explored=len(order)))
    unknown = sorted(c for c in res if c.startswith("other(") or c == "dynamic")
    if unknown:
        return Ob(key, prop, "P+", K.config, fid, UNDECIDED,
                  "class %s not found, but panic sites with wording unknown to the class table are reachable (%s)" % (cls, ", ".join(unknown)[:200]),
                  loc, dict(reachable=sorted(res)))
    return Ob(key, prop, "P+", K.config, fid, VIOLATED,
              "required panic class %s is not reachable from this function in %s (explored %d instances): it can never raise it"
              % (cls, K.config, len(order)), loc, dict(reachable=sorted(c for c in res if panics.is_contract_class(c))))


def p_minus(K, prop, fid, allowed, audit, tag=""):
    """No API-contract panic class outside `allowed` may be reachable, except audited (class, site fn) pairs.

    Returns a list of obligations: one per reachable forbidden (class, site) pair, or a single PROVED one."""
    F = K.F
    root = F.root_of(fid)
    if root is None:
        return [missing(prop, "P-", K, fid)]
    loc = F.loc(F.instances[root]["d"])
    rs = K.P.reach_sites(root)
    out = []
    audited = 0
    guarded = 0
    live = _live_panic_classes(K, root)
    for (cls, site_fid), (site, chain) in sorted(rs.items()):
        if not panics.is_contract_class(cls) or cls in allowed:
            continue
        if live is not None and cls not in live:
            # call-graph reachable, but every path to a site of this class is cut by a guard already decided on the
            # path (the fully inlined decision tree has no such leaf and no terminal that can raise it)
            guarded += 1
            continue
        ent = audit.lookup(fid, cls, site_fid)
        if ent is not None:
            audited += 1
            continue
        if _dominated_by_audited(K, root, cls, site_fid, fid, audit):
            # every call path from the root to this site runs through a function whose panics of this class are audited
            # for this root (the audited argument is about that call, whatever the callee does below it)
            audited += 1
            continue
        key = "%s:P-:%s:%s:%s@%s" % (prop, K.config, fid, cls, site_fid)
        out.append(Ob(key, prop, "P-", K.config, fid, VIOLATED,
                      "panic class %s is reachable (site in `%s`, %s) from a function that must not raise it, and the pair is not in the audit table"
                      % (cls, site_fid, site.loc), loc, dict(witness=chain, site=site.loc)))
    if not out:
        key = "%s:P-:%s:%s%s" % (prop, K.config, fid, (":" + tag) if tag else "")
        res, order = K.P.reach(root)
        out.append(Ob(key, prop, "P-", K.config, fid, PROVED,
                      "no unaudited API-contract panic class reachable (%d audited pairs, %d guard-protected, %d instances explored)" % (audited, guarded, len(order)),
                      loc, dict(instances_explored=len(order), audited=audited, guard_protected=guarded)))
    return out


def _dominated_by_audited(K, root, cls, site_fid, root_fid, audit):
    F = K.F
    ents = audit.entries_for(root_fid, cls)
    if not ents:
        return False
    for i, site_re, e in ents:
        # remove every instance whose function matches the audited site; is the panic site still reachable?
        seen = {root}
        stack = [root]
        hit = False
        if site_re.search(F.fid(F.instances[root]["d"])):
            continue
        while stack and not hit:
            n = stack.pop()
            for _bb, t in K.P.succ_instances(n):
                if t in seen:
                    continue
                seen.add(t)
                f = F.fid(F.instances[t]["d"])
                if site_re.search(f):
                    continue            # cut here
                if f == site_fid:
                    hit = True
                    break
                stack.append(t)
        if not hit:
            audit.used.add(i)
            return True
    return False


def _live_panic_classes(K, root):
    """Panic classes that survive guard pruning: classes of PANIC leaves of the fully inlined decision tree of `root`
    plus everything call-graph reachable from the terminals (loop functions, externals) left in it.  None when the tree
    is not completely summarised (loop in the root itself, give-up): the caller then keeps the call-graph answer."""
    S = K.S
    tree = S.summary(root)
    if tree is None:
        return None
    live = set()
    labels = set()
    ok = [True]

    def term(t):
        if isinstance(t, tuple):
            if t and t[0] == "C" and isinstance(t[1], str):
                labels.add(t[1])
            for x in t:
                term(x)

    def walk(t):
        if not ok[0]:
            return
        k = t[0]
        if k == "IF":
            term(t[1])
            for _v, sub in t[2]:
                walk(sub)
            walk(t[3])
        elif k == "RET":
            term(t[1])
            term(t[2])
        elif k == "PANIC":
            live.add(t[1])
        else:
            ok[0] = False
    walk(tree)
    if not ok[0]:
        return None
    for lab in labels:
        insts = S.term_inst.get(lab)
        if not insts:
            return None         # indirect / unresolved / renamed terminal: no pruning
        for i in insts:
            live |= K.P.classes(i, contract_only=False)
    return live


# ---------------------------------------------------------------- G rows
from . import guards  # noqa: E402

WORLDS = (1, 2, 3)     # digit counts the representatives are evaluated at (3: widths that are not powers of two)
WORLDS_FOR = None   # optional override: function(fid) -> tuple of digit counts (C16: equal widths across digit types)


def _sg(K):
    if not hasattr(K, "SG"):
        K.SG = nf.Summarizer(K.F, K.P, inline=True, terminal_fids=guards.atom_fids(K.F))
    return K.SG


def _match(exp, out, env, W):
    """True / False / None (undecidable) for an expectation against an outcome."""
    kind = exp[0]
    if kind == "any":
        return True
    if kind == "not":
        if out[0] == "opaque":
            return True
        r = _match(exp[1], out, env, W)
        return None if r is None else (not r)
    if kind == "any_of":
        rs = [_match(e, out, env, W) for e in exp[1:]]
        if any(r is True for r in rs):
            return True
        if all(r is False for r in rs):
            return False
        return None
    if out[0] == "opaque" and kind == "ret_call":
        labels = []

        def coll0(t_):
            if isinstance(t_, tuple):
                if t_ and t_[0] == "C":
                    labels.append(t_[1])
                for x in t_:
                    coll0(x)
        coll0(out[1])
        return _ret_call_verdict(exp, labels)
    if kind == "opaque_ok":
        return True if out[0] == "opaque" else False
    if out[0] == "opaque" or out[0] == "unknown":
        return None
    if kind == "panic":
        if out[0] == "panic":
            if out[1] == exp[1] or exp[1] == "*":
                return True
            # a panic whose wording the class table does not know is still a panic: the properties fix
            # panic / no panic, not the message text
            if out[1].startswith("other(") or out[1] == "dynamic" or out[1].startswith("diverges:"):
                return None
            return False
        # a normal return: decisive only when the value was completely evaluated - an unmodelled callee inside an opaque
        # part may itself be where the panic is raised
        if out[0] == "ret" and _has_opaque(out[1]):
            return None
        return False
    if out[0] == "panic":
        return False
    val = out[1]
    if kind == "none":
        if val is guards.OPAQUE:
            return None
        return val == ("None",)
    if kind == "some":
        if val is guards.OPAQUE:
            return None
        if not (isinstance(val, tuple) and val and val[0] == "Some"):
            return False
        if len(exp) > 1:
            if val[1] is guards.OPAQUE:
                return None
            return val[1] == exp[1]
        return True
    if kind == "val":
        if val is guards.OPAQUE:
            return None
        if isinstance(val, tuple) and val and val[0] == "tuple":
            want = exp[1]
            if not (isinstance(want, tuple) and want and want[0] == "tuple"):
                return False
            res = True
            for a, b in zip(val[1], want[1]):
                if b is None:
                    continue
                if a is guards.OPAQUE:
                    res = None
                    continue
                if a != b:
                    return False
            return res
        return val == exp[1]
    if kind == "ret_call":
        # the returned value is (a projection / constructor around) a call whose label contains the given text
        v = out[2][1]
        labels = []

        def coll(t_):
            if isinstance(t_, tuple):
                if t_ and t_[0] == "C":
                    labels.append(t_[1])
                for x in t_:
                    coll(x)
        coll(v)
        return _ret_call_verdict(exp, labels)
    if kind == "pred":
        if val is guards.OPAQUE:
            return None
        r_ = exp[1](val)
        return None if r_ is None else bool(r_)
    if kind == "err_kind":
        if not (isinstance(val, tuple) and val and val[0] in ("Ok", "Err")):
            return None
        if val[0] == "Ok":
            return False
        e_ = val[1]
        if isinstance(e_, tuple) and e_ and e_[0] == "struct":
            k_ = dict(e_[2]).get("kind")
            if isinstance(k_, tuple) and k_ and k_[0] == "enumv":
                return k_[2] == exp[1]
        return None
    if kind in ("is_ok", "is_err"):
        if not (isinstance(val, tuple) and val and val[0] in ("Ok", "Err")):
            return None
        return (val[0] == "Ok") == (kind == "is_ok")
    if kind in ("errv", "okv"):
        if val is guards.OPAQUE:
            return None
        if not (isinstance(val, tuple) and val and val[0] in ("Ok", "Err")):
            return None
        if kind == "errv":
            return val[0] == "Err"
        if val[0] != "Ok":
            return False
        if val[1] is guards.OPAQUE:
            return None
        return val[1] == exp[1]
    if kind == "normal":
        # a normal return (not a panic); the value is not constrained
        return True
    if kind == "self_after":
        try:
            cur = guards.apply_effects(out[2], env, W)
        except guards.PanicReached:
            return False
        if cur is guards.OPAQUE:
            return None
        return cur == exp[1]
    raise ValueError(exp)


def _has_opaque(v):
    if v is guards.OPAQUE:
        return True
    if isinstance(v, tuple):
        return any(_has_opaque(x) for x in v)
    return False


def _ret_call_verdict(exp, labels):
    """wanted terminal reached -> True; a terminal from the explicit wrong list reached -> False; any other shape is
    undecidable (a refactor may route through a new helper: that must never be an alarm)"""
    if any(bad in l for bad in exp[2:] for l in labels):
        return False
    if any(exp[1] in l for l in labels):
        return True
    return None


def g_row(K, prop, fid, reps, tag="", inst=None, cparams=None):
    """reps: list of (name, env_fn(W) -> {param: value}, expect_fn(W, env) -> expectation).

    One obligation per representative; it must hold in every world."""
    F = K.F
    root = F.root_of(fid) if inst is None else inst
    if root is None:
        m0 = missing(prop, "G", K, fid)
        return [Ob("%s:%s" % (m0.key, name), prop, "G", K.config, fid, VIOLATED, m0.detail) for name, _e, _x in reps] or [m0]
    loc = F.loc(F.instances[root]["d"])
    S = _sg(K)
    out = []
    # one obligation per representative in every case, so that the enumerated count does not depend on the shape
    if F.instances[root]["d"] not in F.bodies:
        return [Ob("%s:G:%s:%s:%s" % (prop, K.config, fid, name), prop, "G", K.config, fid, UNDECIDED,
                   "no MIR body for this function", loc) for name, _e, _x in reps]
    tree = S.summary(root)
    if tree is None or (tree[0] == "?" and not str(tree[1]).startswith("loop@")):
        return [Ob("%s:G:%s:%s:%s" % (prop, K.config, fid, name), prop, "G", K.config, fid, UNDECIDED,
                   "not summarisable (%s)" % (tree[1] if tree else "recursion",), loc) for name, _e, _x in reps]
    guards._DESCEND = (S, F)
    for name, env_fn, exp_fn in reps:
        key = "%s:G:%s:%s:%s" % (prop, K.config, fid, name)
        status, detail = PROVED, ""
        sample = None
        for n in (WORLDS_FOR(fid) if WORLDS_FOR else WORLDS):
            if isinstance(n, tuple):
                W = guards.World(n[0], cparams, m=n[1])
            else:
                W = guards.World(n, cparams)
            W.K = K
            env = env_fn(W)
            exp = exp_fn(W, env)
            try:
                o, path = guards.outcome(tree, env, W)
            except RecursionError:
                o, path = ("unknown", "evaluation too deep"), []
            r = _match(exp, o, env, W)
            pth = " ; ".join("%s=%s" % (nf.show_term(s_), v) for s_, v in path)
            if isinstance(n, tuple):
                n = n[0] * 1000 + n[1]
            if r is False:
                status = VIOLATED
                detail = "representative %s (N=%d: %s): guards route to %s where the contract requires %s [path: %s]" % (
                    name, n, _show_env(env), _show_out(o), _show_exp(exp), pth)
                break
            if r is None and status == PROVED:
                status = UNDECIDED
                detail = "representative %s (N=%d): outcome %s cannot be compared with %s" % (name, n, _show_out(o), _show_exp(exp))
            if sample is None:
                sample = "N=%d %s -> %s [path: %s]" % (n, _show_env(env), _show_out(o), pth)
        if status == PROVED:
            detail = "guards route as required: " + (sample or "")
        out.append(Ob(key, prop, "G", K.config, fid, status, detail, loc, dict(representative=name)))
    return out


def _show_env(env):
    return ", ".join("p%d=%r" % (k, v) for k, v in sorted(env.items()))


def _show_out(o):
    if o[0] == "panic":
        return "panic[%s]" % o[1]
    if o[0] == "ret":
        return "return %r (%s)" % (o[1], nf.show_term(o[2][1])[:120])
    if o[0] == "opaque":
        return "non-guard code at `%s`" % nf.show_term(o[1])[:120]
    return str(o)


def _show_exp(e):
    return repr(e)


# ---------------------------------------------------------------- robustness: an internal error decides nothing


def _guard(fn, family, many):
    import functools
    import traceback

    @functools.wraps(fn)
    def wrapper(K, prop, fid, *a, **kw):
        try:
            return fn(K, prop, fid, *a, **kw)
        except (KeyboardInterrupt, MemoryError):
            raise
        except missing_anchor_types:
            raise
        except Exception as e:      # unexpected program shape: report as undecided, never as a crash or an alarm
            INTERNAL_ERRORS.append("%s %s: %s" % (family, fid, traceback.format_exc(limit=4)))
            ob = Ob("%s:%s:%s:%s:internal" % (prop, family, K.config, fid), prop, family, K.config, fid, UNDECIDED,
                    "internal analysis error (%s: %s); nothing decided for this row" % (type(e).__name__, str(e)[:200]))
            if family == "G":
                reps = a[0] if a else kw.get("reps", [])
                # keep the enumerated obligation count independent of the failure
                return [Ob("%s:G:%s:%s:%s" % (prop, K.config, fid, r[0]), prop, "G", K.config, fid, UNDECIDED, ob.detail) for r in reps] or [ob]
            return [ob] if many else ob
    return wrapper


missing_anchor_types = ()
try:
    from .spec import MissingAnchor as _MA
    missing_anchor_types = (_MA,)
except Exception:
    pass

f_row = _guard(f_row, "F", False)
p_plus = _guard(p_plus, "P+", False)
p_minus = _guard(p_minus, "P-", True)
g_row = _guard(g_row, "G", True)
t_row = _guard(t_row, "T", False)

"""Content-dependence analysis of one MIR body (rule family T, DESIGN 2.7).

Question decided: *is there a branch whose decision does not depend on the bytes of the input slice - neither by
data flow nor by control flow - and one side of which can only fail with an overflow kind (or `None`)?*  Such a branch
rejects every input of the lengths that take it, whatever the digits are; a zero-padded numeral of that length denotes a
representable value, so the parse contract ("any number of leading zeros") is broken.  The rule is a classic
information-flow analysis:

  * taint lattice per local (flow-insensitive, projections ignored):  CLEAN < SLICE < CONTENT
      SLICE   = the input slice/str itself or a pointer/sub-slice of it (its *length* is clean)
      CONTENT = anything computed from an element of the input, from a call that received the input or tainted data
                (except the enumerated length-only / aliasing std functions), or assigned under a tainted branch
  * explicit flows through statements and calls; implicit flows through control dependence (post-dominator based,
    `assert` terminators count as branches), closed transitively;
  * a *failing region* of an edge = everything reachable from the edge target; it is fail-only when every write of the
    return place in it is an `Err(..)`/`None` aggregate (a call writing the return place, a moved local, `Ok`, `Some`
    make it not fail-only).

Every approximation is on the silent side: more taint and fewer fail-only regions mean fewer reports.  A report names
the function and the source line of the offending branch.
"""
from . import cfg

CLEAN, SLICE, CONTENT = 0, 1, 2

# std functions of a slice/str argument whose result depends on the length only
LEN_ONLY = ("core::slice::<impl [T]>::len", "core::slice::<impl [T]>::is_empty", "core::str::<impl str>::len",
            "core::str::<impl str>::is_empty")
# std functions returning (a view of) the same bytes
ALIAS = ("core::str::<impl str>::as_bytes", "core::slice::<impl [T]>::as_ptr", "core::str::<impl str>::as_ptr")

OVERFLOW_KINDS = ("PosOverflow", "NegOverflow")


def _callee_path(term):
    f = term.get("f")
    if not f or f[0] != "k":
        return None
    ty = f[1].get("ty", "")
    i, j = ty.rfind("{"), ty.rfind("}")
    return ty[i + 1:j] if 0 <= i < j else None


def _norm_path(p):
    """`core::slice::<impl [u8]>::len` -> `core::slice::<impl [T]>::len`"""
    import re
    return re.sub(r"<impl \[[^\]]*\]>", "<impl [T]>", p or "")


class Body:
    def __init__(self, body, source_locals, content_locals=(), any_err=False):
        self.body = body
        self.blocks = body["blocks"]
        self.n = len(self.blocks)
        self.consts = cfg.const_locals(body)
        self.EXIT = self.n
        self.succ = {}
        for i in range(self.n):
            if "cleanup" in self.blocks[i]:
                self.succ[i] = []
                continue
            s = list(dict.fromkeys(cfg.successors(body, i, self.consts, True)))
            t = self.blocks[i]["term"]["t"]
            if t == "assert":
                s = s + [self.EXIT]          # the panic edge
            if not s:
                s = [self.EXIT]
            self.succ[i] = s
        self.succ[self.EXIT] = []
        self.reach = self._reach_from(0)
        self._postdom()
        self._control_dep()
        self.taint = {}
        for l in source_locals:
            self.taint[l] = SLICE
        for l in content_locals:
            self.taint[l] = CONTENT         # a by-value input: every bit of it is "content"
        self.any_err = any_err
        self.links = {}      # local -> set of locals it may point into (via &mut / & of a local)
        self._collect_links()
        self._fixpoint()

    # ---------------------------------------------------------------- graph
    def _reach_from(self, b):
        seen, st = set(), [b]
        while st:
            x = st.pop()
            if x in seen:
                continue
            seen.add(x)
            st.extend(self.succ[x])
        return seen

    def _postdom(self):
        nodes = [b for b in self.reach]
        if self.EXIT not in self.reach:
            nodes.append(self.EXIT)
        full = set(nodes)
        pd = {b: set(full) for b in nodes}
        pd[self.EXIT] = {self.EXIT}
        changed = True
        while changed:
            changed = False
            for b in nodes:
                if b == self.EXIT:
                    continue
                ss = [s for s in self.succ[b] if s in pd]
                if ss:
                    new = set.intersection(*[pd[s] for s in ss]) | {b}
                else:
                    new = {b}
                if new != pd[b]:
                    pd[b] = new
                    changed = True
        self.pd = pd

    def _control_dep(self):
        """cd[B] = branching blocks S such that B post-dominates one successor of S but not S itself"""
        cd = {b: set() for b in self.reach}
        for s in self.reach:
            if s == self.EXIT or len(self.succ[s]) < 2:
                continue
            for t in self.succ[s]:
                if t not in self.pd:
                    continue
                for b in self.pd[t]:
                    if b == self.EXIT or b not in cd:
                        continue
                    if b == s or b not in self.pd[s]:
                        # b post-dominates t; and b does not strictly post-dominate s
                        if b != s or True:
                            cd[b].add(s)
        # a loop header is control dependent on itself through its back edge: keep (harmless)
        self.cd = cd
        # transitive closure
        closure = {}
        for b in cd:
            seen, st = set(), list(cd[b])
            while st:
                x = st.pop()
                if x in seen:
                    continue
                seen.add(x)
                st.extend(cd.get(x, ()))
            closure[b] = seen
        self.cdx = closure

    # ---------------------------------------------------------------- taint
    def _collect_links(self):
        """links[p] = locals that p may point into mutably.  Direct `&mut x` / `&raw mut x`; copies, casts and reborrows
        of such pointers; and results of calls that received such a pointer (`as_mut_ptr`, `add`, `split_at_mut`, ...)."""
        changed = True
        while changed:
            changed = False
            for i in self.reach:
                if i == self.EXIT:
                    continue
                for st in self.blocks[i]["st"]:
                    if st["s"] != "assign":
                        continue
                    rv = st["rv"]
                    dst = st["p"][0]
                    new = set()
                    if rv["r"] in ("ref", "rawptr") and rv.get("mut", True):
                        base, proj = rv["p"]
                        if "*" in [q for q in proj if isinstance(q, str)]:
                            new |= self.links.get(base, set())      # reborrow through a pointer
                        else:
                            new.add(base)
                    elif rv["r"] in ("use", "cast") and rv.get("a") and rv["a"][0] in ("c", "m"):
                        new |= self.links.get(rv["a"][1][0], set())
                    elif rv["r"] == "agg":
                        for o in rv.get("ops", []):
                            if o[0] in ("c", "m"):
                                new |= self.links.get(o[1][0], set())
                    if new - self.links.get(dst, set()):
                        self.links.setdefault(dst, set()).update(new)
                        changed = True
                term = self.blocks[i]["term"]
                if term["t"] == "call" and term.get("dest"):
                    new = set()
                    for a in term.get("args", []):
                        if a[0] in ("c", "m"):
                            new |= self.links.get(a[1][0], set())
                    dst = term["dest"][0]
                    if new - self.links.get(dst, set()):
                        self.links.setdefault(dst, set()).update(new)
                        changed = True

    def _place_taint(self, place):
        """taint of the value read from `place`: an element / field reached through the input slice is CONTENT"""
        l, proj = place
        t = self.taint.get(l, CLEAN)
        for p in proj:
            if isinstance(p, dict):
                if "i" in p and self.taint.get(p["i"], CLEAN) == CONTENT:
                    return CONTENT
                if t >= SLICE and any(k in p for k in ("i", "ci", "ss", "f", "dc", "oc", "ub")):
                    return CONTENT
        return t

    def _op_taint(self, op):
        if op[0] in ("c", "m"):
            return self._place_taint(op[1])
        return CLEAN

    def _rv_taint(self, rv):
        r = rv["r"]
        if r in ("use", "cast", "un", "repeat", "shallow"):
            ops = [rv[k] for k in ("a",) if k in rv]
            t = max([self._op_taint(o) for o in ops] or [CLEAN])
            if r == "un" and rv.get("op") == "PtrMetadata" and t == SLICE:
                return CLEAN
            return t
        if r == "bin":
            return max(self._op_taint(rv["a"]), self._op_taint(rv["b"]))
        if r in ("ref", "rawptr"):
            return self._place_taint(rv["p"])
        if r == "len":
            t = self._place_taint(rv["p"]) if "p" in rv else CONTENT
            return CLEAN if t == SLICE else t
        if r == "agg":
            return max([self._op_taint(o) for o in rv.get("ops", [])] or [CLEAN])
        if r == "discr":
            t = self._place_taint(rv["p"]) if "p" in rv else CONTENT
            return CONTENT if t >= SLICE else CLEAN
        # anything else: join of every operand we can find, SLICE promoted to CONTENT
        t = CLEAN
        for k, v in rv.items():
            if isinstance(v, list) and v and v[0] in ("c", "m", "k"):
                t = max(t, self._op_taint(v))
        if "p" in rv and isinstance(rv["p"], list):
            t = max(t, self._place_taint(rv["p"]))
        return CONTENT if t >= SLICE else CLEAN

    def _raise(self, l, t):
        if t > self.taint.get(l, CLEAN):
            self.taint[l] = t
            return True
        return False

    def _branch_taint(self, b):
        t = self.blocks[b]["term"]
        if t["t"] == "switch":
            return self._op_taint(t["d"]) if t["d"][0] != "k" else CLEAN
        if t["t"] == "assert":
            return self._op_taint(t["c"]) if t["c"][0] != "k" else CLEAN
        return CLEAN

    def pc_taint(self, b):
        return any(self._branch_taint(s) == CONTENT for s in self.cdx.get(b, ()))

    def _fixpoint(self):
        changed = True
        rounds = 0
        while changed and rounds < 200:
            rounds += 1
            changed = False
            for b in sorted(self.reach):
                if b == self.EXIT:
                    continue
                pc = CONTENT if self.pc_taint(b) else CLEAN
                for st in self.blocks[b]["st"]:
                    if st["s"] != "assign":
                        continue
                    t = max(self._rv_taint(st["rv"]), pc)
                    # a tainted index on the destination taints the destination as a whole
                    for p in st["p"][1]:
                        if isinstance(p, dict) and "i" in p and self.taint.get(p["i"], CLEAN) == CONTENT:
                            t = CONTENT
                    if st["p"][1] and t == SLICE:
                        t = CONTENT
                    changed |= self._raise(st["p"][0], t)
                    if "*" in [p for p in st["p"][1] if isinstance(p, str)] or st["p"][1]:
                        for tgt in self.links.get(st["p"][0], ()):
                            changed |= self._raise(tgt, t if t != SLICE else CONTENT)
                term = self.blocks[b]["term"]
                if term["t"] == "call":
                    path = _norm_path(_callee_path(term))
                    ats = [self._op_taint(a) for a in term.get("args", [])]
                    t = max(ats or [CLEAN])
                    if t == SLICE:
                        if path in LEN_ONLY:
                            t = CLEAN
                        elif path in ALIAS:
                            t = SLICE
                        else:
                            t = CONTENT
                    t = max(t, pc)
                    d = term.get("dest")
                    if d:
                        changed |= self._raise(d[0], t if not d[1] or t != SLICE else CONTENT)
                    if t == CONTENT:
                        for a in term.get("args", []):
                            if a[0] in ("c", "m"):
                                for tgt in self.links.get(a[1][0], ()):
                                    changed |= self._raise(tgt, CONTENT)

    # ---------------------------------------------------------------- return writes
    def _agg_in_block(self, b, local, upto):
        """the aggregate assigned to `local` in block b before statement index `upto` (or None)"""
        sts = self.blocks[b]["st"]
        for j in range(upto - 1, -1, -1):
            st = sts[j]
            if st["s"] == "assign" and st["p"] == [local, []]:
                return (j, st["rv"]) if st["rv"]["r"] == "agg" else None
        return None

    def return_writes(self, b):
        """classification of every write of the return place in block b:
        ('Err', kind|None) | ('Ok',) | ('None',) | ('Some',) | ('unknown',)"""
        out = []
        sts = self.blocks[b]["st"]
        for j, st in enumerate(sts):
            if st["s"] != "assign" or st["p"][0] != 0:
                continue
            if st["p"][1]:
                out.append(("unknown",))
                continue
            rv = st["rv"]
            if rv["r"] != "agg" or rv.get("k") != "adt":
                out.append(("unknown",))
                continue
            if rv.get("adt") == "Result":
                if rv.get("variant") == "Ok":
                    out.append(("Ok",))
                    continue
                kind = None
                ops = rv.get("ops", [])
                if ops and ops[0][0] in ("c", "m") and not ops[0][1][1]:
                    e = self._agg_in_block(b, ops[0][1][0], j)
                    if e:
                        j2, erv = e
                        if erv.get("adt") == "ParseIntError" and erv.get("ops"):
                            k = erv["ops"][0]
                            if k[0] in ("c", "m") and not k[1][1]:
                                kk = self._agg_in_block(b, k[1][0], j2)
                                if kk and kk[1].get("adt") == "IntErrorKind":
                                    kind = kk[1].get("variant")
                out.append(("Err", kind))
            elif rv.get("adt") == "Option":
                out.append(("None",) if rv.get("variant") == "None" else ("Some",))
            else:
                out.append(("unknown",))
        term = self.blocks[b]["term"]
        if term["t"] == "call" and term.get("dest") and term["dest"][0] == 0:
            out.append(("unknown",))
        return out

    def region_writes(self, start):
        seen = self._reach_from(start)
        ws = []
        for b in seen:
            if b == self.EXIT:
                continue
            ws += self.return_writes(b)
        return ws, seen

    # ---------------------------------------------------------------- the rule
    def content_independent_rejections(self):
        """[(branch block, edge target, kinds, loc)] : branches that are clean (data and control) with a fail-only side
        containing an overflow kind / None"""
        found = []
        for s in sorted(self.reach):
            if s == self.EXIT:
                continue
            term = self.blocks[s]["term"]
            if term["t"] != "switch":
                continue
            succs = [x for x in self.succ[s] if x != self.EXIT]
            if len(succs) < 2:
                continue
            if self._branch_taint(s) != CLEAN or self.pc_taint(s):
                continue
            for tgt in succs:
                ws, region = self.region_writes(tgt)
                if not ws:
                    continue
                if all(w[0] == "Err" for w in ws):
                    kinds = sorted({w[1] or "?" for w in ws})
                    if self.any_err or any(k in OVERFLOW_KINDS for k in kinds):
                        found.append((s, tgt, kinds, term.get("loc")))
                elif all(w[0] == "None" for w in ws):
                    found.append((s, tgt, ["None"], term.get("loc")))
        # keep the outermost reports only (a report inside the failing region of another is a consequence of it)
        out = []
        for f in found:
            inner = False
            for g in found:
                if g is f:
                    continue
                _ws, region = self.region_writes(g[1])
                if f[0] in region:
                    inner = True
                    break
            if not inner:
                out.append(f)
        return out

    def stats(self):
        branches = [b for b in self.reach if b != self.EXIT and self.blocks[b]["term"]["t"] == "switch"
                    and len([x for x in self.succ[b] if x != self.EXIT]) >= 2]
        tainted = [b for b in branches if self._branch_taint(b) == CONTENT or self.pc_taint(b)]
        return dict(blocks=len(self.reach), branches=len(branches), content_dependent_branches=len(tainted))


# ---------------------------------------------------------------- self-check on synthetic bodies
def _blk(st, term):
    return {"st": st, "term": term}


def _asg(l, rv, proj=None):
    return {"s": "assign", "p": [l, proj or []], "rv": rv}


def _err_block(kind, to):
    return _blk([_asg(10, {"r": "agg", "k": "adt", "adt": "IntErrorKind", "variant": kind, "ops": []}),
                 _asg(11, {"r": "agg", "k": "adt", "adt": "ParseIntError", "variant": "ParseIntError", "ops": [["m", [10, []]]]}),
                 _asg(0, {"r": "agg", "k": "adt", "adt": "Result", "variant": "Err", "ops": [["m", [11, []]]]})],
                {"t": "goto", "to": to})


def _synthetic(guard_from_content):
    """fn f(buf: &[u8]) { let n = len(buf); let b = buf[0]; if (n or b) > 8 { Err(PosOverflow) } else { Ok(..) } }"""
    k8 = ["k", {"ty": "usize", "v": 8, "size": 8}]
    src = ["c", [3, []]] if guard_from_content else ["c", [2, []]]
    return {"blocks": [
        _blk([_asg(2, {"r": "un", "op": "PtrMetadata", "a": ["c", [1, []]]}),
              _asg(3, {"r": "use", "a": ["c", [1, ["*", {"i": 4}]]]}),
              _asg(5, {"r": "bin", "op": "Gt", "a": src, "b": k8})],
             {"t": "switch", "d": ["m", [5, []]], "dty": "bool", "vals": [[0, 2]], "otherwise": 1, "loc": "synthetic:1"}),
        _err_block("PosOverflow", 3),
        _blk([_asg(0, {"r": "agg", "k": "adt", "adt": "Result", "variant": "Ok", "ops": [["c", [3, []]]]})], {"t": "goto", "to": 3}),
        _blk([], {"t": "return"}),
    ]}


_checked = [False]


def selfcheck():
    """the rule must fire on the length-only synthetic body and stay silent on its content-dependent twin"""
    if _checked[0]:
        return
    a = Body(_synthetic(False), [1]).content_independent_rejections()
    b = Body(_synthetic(True), [1]).content_independent_rejections()
    if len(a) != 1 or a[0][0] != 0 or a[0][1] != 1 or b:
        raise RuntimeError("taint self-check failed: %r %r" % (a, b))
    _checked[0] = True

"""Guard evaluation over representatives (DESIGN.md 2.2(b)).

A summary tree is walked on a *representative* assignment of the parameters.  Scrutinees are evaluated
with a trusted table of atom meanings (`is_zero(x)` is x == 0, `cmp` is the integer order, `x.bits` is the
two's-complement pattern, BITS = N * digit bits, ...).  No bnum code is executed: only the guard
structure extracted from MIR is interpreted, and anything outside the table is OPAQUE.  Walking stops at
the first opaque scrutinee ("falls into non-guard code").
"""
import re

from .facts import DIGIT, SIGNED, UNSIGNED, TWIN

OPAQUE = ("opaque",)
DIGIT_BITS = {"u8": 8, "u16": 16, "u32": 32, "u64": 64}
PRIM_BITS = {"u8": 8, "u16": 16, "u32": 32, "u64": 64, "u128": 128, "usize": 64,
             "i8": 8, "i16": 16, "i32": 32, "i64": 64, "i128": 128, "isize": 64}

# methods of the eight ADTs (and of primitive integers) whose *meaning* is trusted here.  Whether bnum's
# implementation of e.g. `cmp` is correct is a value-level question that no rule decides.
ATOM_METHODS = {"is_zero", "is_one", "is_negative", "is_positive", "is_power_of_two", "eq", "ne", "lt", "le", "gt",
                "ge", "cmp", "from_bits", "to_bits", "cast_signed", "cast_unsigned", "is_nan", "is_infinite",
                "is_sign_negative"}

_ADT_OF = re.compile(r"^<?&?(BUintD32|BUintD16|BUintD8|BUint|BIntD32|BIntD16|BIntD8|BInt)<")


ATOM_ERRORS = []


def atom_fids(F):
    """canonical ids of the inherent atom methods, to be kept as terminals when summarising for G rows"""
    out = set()
    for adt in UNSIGNED + SIGNED:
        for m in ATOM_METHODS:
            out.add("%s<N>::%s" % (adt, m))
    for adt in UNSIGNED:
        out.add("%s<N>::div_rem_unchecked" % adt)
    return out


class BN:
    """a value of a bnum ADT at a concrete width (n = digit count when it differs from the world's N)"""
    __slots__ = ("adt", "v", "n")

    def __init__(self, adt, v, n=None):
        self.adt, self.v, self.n = adt, v, n

    def __eq__(self, o):
        return isinstance(o, BN) and o.adt == self.adt and o.v == self.v and o.n == self.n

    def __hash__(self):
        return hash((self.adt, self.v, self.n))

    def __repr__(self):
        return "%s%s(%d)" % (self.adt, "<%d>" % self.n if self.n else "", self.v)


class PI:
    """primitive integer value"""
    __slots__ = ("ty", "v")

    def __init__(self, ty, v):
        self.ty, self.v = ty, v

    def __eq__(self, o):
        return isinstance(o, PI) and o.v == self.v and o.ty == self.ty

    def __hash__(self):
        return hash((self.ty, self.v))

    def __repr__(self):
        return "%d%s" % (self.v, self.ty)


class World:
    def __init__(self, n, cparams=None, m=None):
        self.n = n
        self.m = m
        self.cparams = cparams or {}

    def bits(self, adt, n=None):
        return (n or self.n) * DIGIT_BITS[DIGIT[adt]]

    def bits_of(self, bn):
        return (bn.n or self.n) * DIGIT_BITS[DIGIT[bn.adt]]

    def wrap(self, adt, v, n=None):
        w = self.bits(adt, n)
        v &= (1 << w) - 1
        if adt in SIGNED and v >> (w - 1):
            v -= 1 << w
        return BN(adt, v, n if (n and n != self.n) else None)

    def const(self, adt, name):
        w = self.bits(adt)
        signed = adt in SIGNED
        names = {"ZERO": 0, "ONE": 1, "TWO": 2, "THREE": 3, "FOUR": 4, "FIVE": 5, "SIX": 6, "SEVEN": 7, "EIGHT": 8,
                 "NINE": 9, "TEN": 10}
        if name in names:
            return BN(adt, names[name])
        if name.startswith("NEG_") and name[4:] in names and signed:
            return BN(adt, -names[name[4:]])
        if name == "MAX":
            return BN(adt, (1 << (w - 1)) - 1 if signed else (1 << w) - 1)
        if name == "MIN":
            return BN(adt, -(1 << (w - 1)) if signed else 0)
        if name == "BITS":
            return PI("u32", w)
        if name == "BYTES":
            return PI("u32", w // 8)
        if name == "BITS_MINUS_1":
            return PI("u32", w - 1)
        if name == "N_MINUS_1":
            return PI("usize", self.n - 1)
        return OPAQUE


def _adt_of_label(label):
    m = _ADT_OF.match(label)
    return m.group(1) if m else None


def _wrap_prim(ty, v):
    b = PRIM_BITS.get(ty)
    if b is None:
        return OPAQUE
    v &= (1 << b) - 1
    if ty.startswith("i") and v >> (b - 1):
        v -= 1 << b
    return PI(ty, v)


class PanicReached(Exception):
    def __init__(self, cls, where):
        Exception.__init__(self, cls)
        self.cls, self.where = cls, where


# terminals (functions with loops) whose documented arithmetic meaning is trusted when a guard depends on
# their result.  Value-level correctness of these functions is exactly what no rule here decides; the G rows
# say "assuming these meet their contract, the wrappers around them route as documented".
ARITH_METHODS = {"overflowing_add", "overflowing_sub", "overflowing_mul", "overflowing_neg", "div_rem_unchecked",
                 "not", "leading_zeros", "trailing_zeros", "bits", "count_ones", "unsigned_abs",
                 "count_zeros", "leading_ones", "trailing_ones", "swap_bytes", "reverse_bits", "bit",
                 "bitand", "bitor", "bitxor", "long_mul", "unchecked_shl_internal", "unchecked_shr_internal",
                 "unchecked_shr_pad_internal", "unchecked_rotate_left", "overflowing_pow", "checked_pow", "wrapping_pow",
                 "power_of_two", "widening_mul", "gcd", "to_u128", "last_digit_index"}


import struct
from fractions import Fraction


class FL:
    """an IEEE-754 binary32 / binary64 value, kept as its bit pattern"""
    __slots__ = ("ty", "bits")

    def __init__(self, ty, bits):
        self.ty, self.bits = ty, bits

    @staticmethod
    def of(ty, x):
        if ty == "f32":
            return FL(ty, struct.unpack("<I", struct.pack("<f", x))[0])
        return FL(ty, struct.unpack("<Q", struct.pack("<d", x))[0])

    @property
    def width(self):
        return 32 if self.ty == "f32" else 64

    @property
    def dig(self):
        return 24 if self.ty == "f32" else 53

    @property
    def sign(self):
        return bool(self.bits >> (self.width - 1))

    @property
    def rawexp(self):
        return (self.bits >> (self.dig - 1)) & ((1 << (self.width - self.dig)) - 1)

    @property
    def rawmant(self):
        return self.bits & ((1 << (self.dig - 1)) - 1)

    def is_nan(self):
        return self.rawexp == (1 << (self.width - self.dig)) - 1 and self.rawmant != 0

    def is_inf(self):
        return self.rawexp == (1 << (self.width - self.dig)) - 1 and self.rawmant == 0

    def magnitude(self):
        """exact |value| as a Fraction (finite values only)"""
        bias = (1 << (self.width - self.dig - 1)) - 1
        if self.rawexp == 0:
            return Fraction(self.rawmant, 1) * Fraction(2) ** (1 - bias - (self.dig - 1))
        return Fraction(self.rawmant | (1 << (self.dig - 1)), 1) * Fraction(2) ** (self.rawexp - bias - (self.dig - 1))

    def __eq__(self, o):
        return isinstance(o, FL) and o.ty == self.ty and o.bits == self.bits

    def __hash__(self):
        return hash((self.ty, self.bits))

    def __repr__(self):
        if self.is_nan():
            return "NaN" + self.ty
        if self.is_inf():
            return ("-" if self.sign else "") + "inf" + self.ty
        return "%s%s%s" % ("-" if self.sign else "", float(self.magnitude()), self.ty)


FLOAT_CONSTS = {
    ("f32", "MANTISSA_DIGITS"): PI("u32", 24), ("f64", "MANTISSA_DIGITS"): PI("u32", 53),
    ("f32", "MAX_EXP"): PI("i32", 128), ("f64", "MAX_EXP"): PI("i32", 1024),
    ("f32", "BITS"): PI("u32", 32), ("f64", "BITS"): PI("u32", 64),
}
PROJ_TYPES = {"<f32 as cast::float::ConvertFloatParts>::Mantissa": "u32", "<f64 as cast::float::ConvertFloatParts>::Mantissa": "u64",
              "<f32 as cast::float::ConvertFloatParts>::SignedExp": "i32", "<f64 as cast::float::ConvertFloatParts>::SignedExp": "i32",
              "<f32 as cast::float::ConvertFloatParts>::UnsignedExp": "u32", "<f64 as cast::float::ConvertFloatParts>::UnsignedExp": "u32"}


def _trait_const(path, selfty, W):
    """associated constant of a trait, at a concrete Self type (after generic substitution)"""
    name = path.rsplit("::", 1)[1]
    selfty = PROJ_TYPES.get(selfty, selfty)
    m = re.match(r"^(BUintD32|BUintD16|BUintD8|BUint|BIntD32|BIntD16|BIntD8|BInt)<N>$", selfty)
    if m:
        if name in ("ZERO", "ONE", "MAX", "MIN", "BITS"):
            return W.const(m.group(1), name)
        return OPAQUE
    if selfty in PRIM_BITS:
        if name == "ZERO":
            return PI(selfty, 0)
        if name == "ONE":
            return PI(selfty, 1)
        if name == "BITS":
            return PI("u32", PRIM_BITS[selfty])
        if name == "MAX":
            return _wrap_prim(selfty, (1 << (PRIM_BITS[selfty] - (1 if selfty.startswith("i") else 0))) - 1)
        if name == "MIN":
            return _wrap_prim(selfty, -(1 << (PRIM_BITS[selfty] - 1)) if selfty.startswith("i") else 0)
        return OPAQUE
    if selfty in ("f32", "f64"):
        if (selfty, name) in FLOAT_CONSTS:
            return FLOAT_CONSTS[(selfty, name)]
        if name == "INFINITY":
            return FL.of(selfty, float("inf"))
        if name == "ZERO":
            return FL.of(selfty, 0.0)
        if name == "NEG_ZERO":
            return FL.of(selfty, -0.0)
    return OPAQUE


def ev(t, env, W):
    """value of a term under a parameter assignment, or OPAQUE"""
    k = t[0]
    if k == "P":
        return env.get(t[1], OPAQUE)
    if k == "K":
        if t[1] == "bool":
            return bool(t[2])
        if t[1] in PRIM_BITS:
            return _wrap_prim(t[1], t[2])
        if t[1] == "discr":
            return t[2]
        if t[1] in ("f32", "f64"):
            return FL(t[1], t[2])
        return OPAQUE
    if k == "AC":
        m = re.match(r"^(BUintD32|BUintD16|BUintD8|BUint|BIntD32|BIntD16|BIntD8|BInt)<N>::([A-Z_0-9]+)$", t[1])
        if m:
            if t[2] == ("M",):
                if W.m is None:
                    return OPAQUE
                if m.group(2) == "BITS":
                    return PI("u32", W.bits(m.group(1), W.m))
                # any other associated constant of the M-digit type: evaluate it in a world whose N is M, then tag the digit count
                W2 = World(W.m, W.cparams, W.n)
                return _retag(W2.const(m.group(1), m.group(2)), W2, W)
            return W.const(m.group(1), m.group(2))
        if len(t[2]) == 1 and not t[1].startswith("B") and "::" in t[1] and not t[1].startswith("<"):
            return _trait_const(t[1], t[2][0], W)
        return OPAQUE
    if k == "CP":
        if t[1] == "N":
            return PI("usize", W.n)
        if t[1] == "M" and W.m is not None:
            return PI("usize", W.m)
        if t[1] in W.cparams:
            return W.cparams[t[1]]
        return OPAQUE
    if k == "F":
        b = ev(t[1], env, W)
        if isinstance(b, BN) and t[2] == "bits" and b.adt in SIGNED:
            return W.wrap(TWIN[b.adt], b.v, b.n)
        if isinstance(b, tuple) and b and b[0] == "tuple" and isinstance(t[2], int):
            return b[1][t[2]]
        if isinstance(b, tuple) and b and b[0] == "struct":
            for f, v in b[2]:
                if f == t[2]:
                    return v
            return OPAQUE
        if isinstance(b, BN) and t[2] == "digits" and b.adt in UNSIGNED:
            db = DIGIT_BITS[DIGIT[b.adt]]
            return ("arr", tuple(PI(DIGIT[b.adt], (b.v >> (db * i)) & ((1 << db) - 1)) for i in range(W.n)))
        return OPAQUE
    if k == "WITH":
        b = ev(t[1], env, W)
        v = ev(t[3], env, W)
        if isinstance(b, BN) and b.adt in UNSIGNED and t[2] == "digits" and isinstance(v, tuple) and v and v[0] == "arr":
            db = DIGIT_BITS[DIGIT[b.adt]]
            tot = 0
            for i, d in enumerate(v[1]):
                if not isinstance(d, PI):
                    return OPAQUE
                tot |= (d.v & ((1 << db) - 1)) << (db * i)
            return W.wrap(b.adt, tot)
        if isinstance(b, BN) and b.adt in SIGNED and t[2] == "bits" and isinstance(v, BN):
            return W.wrap(b.adt, v.v)
        return OPAQUE
    if k == "WIX":
        b = ev(t[1], env, W)
        i = ev(t[2], env, W)
        v = ev(t[3], env, W)
        if isinstance(b, tuple) and b and b[0] == "arr" and isinstance(i, PI) and 0 <= i.v < len(b[1]) and v is not OPAQUE:
            lst = list(b[1])
            lst[i.v] = v
            return ("arr", tuple(lst))
        return OPAQUE
    if k == "IX":
        b = ev(t[1], env, W)
        i = ev(t[2], env, W)
        if isinstance(b, tuple) and b and b[0] == "arr" and isinstance(i, PI) and 0 <= i.v < len(b[1]):
            return b[1][i.v]
        return OPAQUE
    if k == "CT":
        adt = t[1]
        if adt in UNSIGNED and len(t[3]) == 1:
            v = ev(t[3][0], env, W)
            if isinstance(v, tuple) and v and v[0] == "arr" and all(isinstance(d, PI) for d in v[1]):
                db = DIGIT_BITS[DIGIT[adt]]
                return W.wrap(adt, sum((d.v & ((1 << db) - 1)) << (db * i) for i, d in enumerate(v[1])))
            return OPAQUE
        if adt in SIGNED and len(t[3]) == 1:
            b = ev(t[3][0], env, W)
            if isinstance(b, BN):
                return W.wrap(adt, b.v)
            return OPAQUE
        if adt == "Option":
            if t[2] == "None":
                return ("None",)
            return ("Some", ev(t[3][0], env, W))
        if adt == "Result":
            return (t[2], ev(t[3][0], env, W))
        if adt == "Ordering":
            return {"Less": 255, "Equal": 0, "Greater": 1}[t[2]]
        if len(t) > 4 and t[4] and len(t[4]) == len(t[3]):
            return ("struct", adt, tuple((f, ev(x, env, W)) for f, x in zip(t[4], t[3])))
        if len(t) > 5 and not t[3] and t[5] is not None:
            return ("enumv", adt, t[2], t[5])
        return OPAQUE
    if k == "TU":
        return ("tuple", tuple(ev(x, env, W) for x in t[1]))
    if k == "RP":
        v = ev(t[1], env, W)
        if t[2] == "N" and v is not OPAQUE:
            return ("arr", tuple(v for _ in range(W.n)))
        return OPAQUE
    if k == "AR":
        return ("arr", tuple(ev(x, env, W) for x in t[1]))
    if k == "D":
        b = ev(t[1], env, W)
        if isinstance(b, int) and not isinstance(b, bool):
            return b
        if isinstance(b, tuple) and b:
            if b[0] == "None":
                return 0
            if b[0] == "Some":
                return 1
            if b[0] == "Ok":
                return 0
            if b[0] == "Err":
                return 1
            if b[0] == "enumv":
                return b[3]
            if b[0] == "Continue":
                return 0
            if b[0] == "Break":
                return 1
        return OPAQUE
    if k == "VF":
        b = ev(t[1], env, W)
        if isinstance(b, tuple) and len(b) == 2 and b[0] == t[2]:
            return b[1]
        return OPAQUE
    if k == "CAST":
        b = ev(t[2], env, W)
        if isinstance(b, FL) and t[1] == "FloatToFloat" and t[4] in ("f32", "f64"):
            if b.ty == t[4]:
                return b
            if t[4] == "f64":
                # widening is exact
                return FL.of("f64", struct.unpack("<f", struct.pack("<I", b.bits))[0])
            # f64 -> f32: IEEE round to nearest, ties to even (what the hardware conversion does)
            d = struct.unpack("<d", struct.pack("<Q", b.bits))[0]
            try:
                return FL("f32", struct.unpack("<I", struct.pack("<f", d))[0])
            except OverflowError:
                return FL.of("f32", float("-inf") if d < 0 else float("inf"))
        if isinstance(b, FL) and t[1] == "FloatToInt" and t[4] in PRIM_BITS:
            # Rust `as`: truncate toward zero, saturate at the target's bounds, NaN -> 0
            ty = t[4]
            nb = PRIM_BITS[ty]
            lo_, hi_ = (-(1 << (nb - 1)), (1 << (nb - 1)) - 1) if ty.startswith("i") else (0, (1 << nb) - 1)
            if b.is_nan():
                return PI(ty, 0)
            if b.is_inf():
                return PI(ty, lo_ if b.sign else hi_)
            from fractions import Fraction
            q = Fraction(b.magnitude())
            v_ = int(q)                 # truncation of the magnitude
            if b.sign:
                v_ = -v_
            return PI(ty, min(max(v_, lo_), hi_))
        if isinstance(b, PI) and t[4] in PRIM_BITS:
            return _wrap_prim(t[4], b.v)
        if isinstance(b, bool) and t[4] in PRIM_BITS:
            return _wrap_prim(t[4], int(b))
        if isinstance(b, tuple) and b and b[0] == "arr" and "Unsize" in str(t[1]):
            return b        # &[T; N] -> &[T]: the same elements
        return OPAQUE
    if k == "U":
        b = ev(t[2], env, W)
        if t[1] == "Not" and isinstance(b, bool):
            return not b
        if t[1] == "Len" and isinstance(b, tuple) and b and b[0] in ("arr", "str"):
            return PI("usize", len(b[1]))
        if t[1] == "Neg" and isinstance(b, PI):
            return _wrap_prim(b.ty, -b.v)
        if t[1] == "Neg" and isinstance(b, FL):
            return FL(b.ty, b.bits ^ (1 << (b.width - 1)))
        if t[1] == "Not" and isinstance(b, PI):
            return _wrap_prim(b.ty, ~b.v)
        return OPAQUE
    if k == "B":
        a, b = ev(t[2], env, W), ev(t[3], env, W)
        return _binop(t[1], a, b)
    if k == "C":
        try:
            return _atom(t, env, W)
        except PanicReached:
            raise
        except RecursionError:
            raise
        except Exception as e:      # an atom that cannot cope with an unexpected argument shape decides nothing
            ATOM_ERRORS.append("%s: %r" % (t[1], e))
            return OPAQUE
    return OPAQUE


def _flnum(f):
    if f.is_inf():
        return float("-inf") if f.sign else float("inf")
    m = f.magnitude()
    return -m if f.sign else m


def _binop(op, a, b):
    if isinstance(a, FL) and isinstance(b, FL):
        if a.is_nan() or b.is_nan():
            return op == "Ne" if op in ("Eq", "Ne", "Lt", "Le", "Gt", "Ge") else OPAQUE
        x, y = _flnum(a), _flnum(b)
        return {"Eq": x == y, "Ne": x != y, "Lt": x < y, "Le": x <= y, "Gt": x > y, "Ge": x >= y}.get(op, OPAQUE)
    if isinstance(a, bool) and isinstance(b, bool):
        if op == "Eq":
            return a == b
        if op == "Ne":
            return a != b
        if op == "BitAnd":
            return a and b
        if op == "BitOr":
            return a or b
        if op == "BitXor":
            return a != b
        return OPAQUE
    if isinstance(a, PI) and isinstance(b, PI):
        x, y = a.v, b.v
        if op == "Eq":
            return x == y
        if op == "Ne":
            return x != y
        if op == "Lt":
            return x < y
        if op == "Le":
            return x <= y
        if op == "Gt":
            return x > y
        if op == "Ge":
            return x >= y
        if op in ("AddChk", "SubChk", "MulChk"):
            r_ = x + y if op == "AddChk" else (x - y if op == "SubChk" else x * y)
            nb = PRIM_BITS[a.ty]
            lo_, hi_ = (-(1 << (nb - 1)), (1 << (nb - 1)) - 1) if a.ty.startswith("i") else (0, (1 << nb) - 1)
            if not (lo_ <= r_ <= hi_):
                # the build checks primitive overflow: the compiler-inserted assertion fires here
                raise PanicReached("other(primitive arithmetic overflow check)", "checked primitive `%s`" % op[:3].lower())
            return PI(a.ty, r_)
        if op in ("Add", "AddWithOverflow", "AddUnchecked"):
            return _wrap_prim(a.ty, x + y)
        if op in ("Sub", "SubWithOverflow", "SubUnchecked"):
            return _wrap_prim(a.ty, x - y)
        if op in ("Mul", "MulWithOverflow"):
            return _wrap_prim(a.ty, x * y)
        if op == "BitAnd":
            return _wrap_prim(a.ty, x & y)
        if op == "BitOr":
            return _wrap_prim(a.ty, x | y)
        if op == "BitXor":
            return _wrap_prim(a.ty, x ^ y)
        if op == "Rem" and y != 0:
            return _wrap_prim(a.ty, abs(x) % abs(y) * (1 if x >= 0 else -1))
        if op == "Div" and y != 0:
            q = abs(x) // abs(y)
            return _wrap_prim(a.ty, q if (x >= 0) == (y >= 0) else -q)
        if op in ("Shl", "ShlUnchecked") and 0 <= y < PRIM_BITS[a.ty]:
            return _wrap_prim(a.ty, x << y)
        if op in ("Shr", "ShrUnchecked") and 0 <= y < PRIM_BITS[a.ty]:
            return _wrap_prim(a.ty, x >> y)
    return OPAQUE


def _atom(t, env, W):
    label = t[1].lstrip("?")
    m = re.search(r"::([a-z_0-9]+)(::<.*>)?$", label)
    if not m:
        return OPAQUE
    name = m.group(1)
    r = _prim_atom(name, label, t, env, W)
    if r is not None:
        return r
    if name in ("cast_up", "cast_down") and m.group(2):
        # same-digit widening / narrowing terminals: copy the low digits, fill the rest with the given digit
        adt = _adt_of_label(label)
        args = [ev(a, env, W) for a in t[2]]
        g = [x.strip() for x in m.group(2)[3:-1].split(",")]
        if adt in UNSIGNED and args and isinstance(args[0], BN) and args[0].adt == adt and len(g) == 2:
            tgt_n = W.n if g[1] == "N" else (W.m if g[1] == "M" else None)
            if tgt_n is None:
                return OPAQUE
            db = DIGIT_BITS[DIGIT[adt]]
            src_bits = W.bits_of(args[0])
            x = args[0].v & ((1 << src_bits) - 1)
            if name == "cast_up":
                if len(args) != 2 or not isinstance(args[1], PI) or tgt_n * db < src_bits:
                    return OPAQUE
                fill = args[1].v & ((1 << db) - 1)
                for i in range(src_bits // db, tgt_n):
                    x |= fill << (db * i)
            else:
                x &= (1 << (tgt_n * db)) - 1
            return W.wrap(adt, x, tgt_n)
        return OPAQUE
    if name == "unchecked_shr_pad_internal" and m.group(2):
        return _arith(name, label, [ev(a, env, W) for a in t[2]], W, m.group(2))
    if name in ("checked_sub", "checked_add") and re.match(r"^(u8|u16|u32|u64|usize)::", label):
        a = [ev(x, env, W) for x in t[2]]
        if len(a) == 2 and isinstance(a[0], PI) and isinstance(a[1], PI):
            r = a[0].v - a[1].v if name == "checked_sub" else a[0].v + a[1].v
            if 0 <= r < (1 << PRIM_BITS[a[0].ty]):
                return ("Some", PI(a[0].ty, r))
            return ("None",)
        return OPAQUE
    if name not in ATOM_METHODS:
        if label.startswith("<") and not m.group(2) and name not in ARITH_METHODS:
            r = _arith(name, label, [ev(a, env, W) for a in t[2]], W)
            if r is not OPAQUE:
                return r
        if name in ARITH_METHODS and (not m.group(2) or (name in ("leading_zeros", "leading_ones", "bits", "trailing_zeros", "count_ones", "count_zeros")
                                                          and re.match(r"^::<[NM]>$", m.group(2)))):
            # (the counting atoms read the operand's own digit count, so an instance at the other width is the same atom)
            # the trusted meaning is used only for loop terminals; a callee with a summarisable (acyclic) body is
            # analysed, not trusted - except the forced atoms, whose own leaves are loop terminals
            if name in FORCED_ATOMS or not _is_local_wrapper(label):
                r = _arith(name, label, [ev(a, env, W) for a in t[2]], W)
                if r is not OPAQUE:
                    return r
        return _descend(label, m.group(2), t, env, W)
    args = [ev(a, env, W) for a in t[2]]
    adt = _adt_of_label(label)
    if adt is None and label.startswith("core::cmp::Partial") and len(args) == 2 and isinstance(args[0], BN) \
            and isinstance(args[1], BN) and args[0].adt == args[1].adt:
        return _cmp_name(name, args[0].v, args[1].v)
    if adt is None:
        # primitive receivers
        if args and isinstance(args[0], PI):
            x = args[0].v
            if name == "is_negative":
                return x < 0
            if name == "is_positive":
                return x > 0
            if name == "is_power_of_two":
                return x > 0 and x & (x - 1) == 0
            if len(args) == 2 and isinstance(args[1], PI):
                return _cmp_name(name, x, args[1].v)
        if args and isinstance(args[0], tuple) and args[0] and args[0][0] == "float":
            f = args[0]
            if name == "is_nan":
                return f[1] == "nan"
            if name == "is_infinite":
                return f[1] in ("inf", "-inf")
        return OPAQUE
    if not args or not all(isinstance(a, BN) for a in args if not isinstance(a, PI)):
        return OPAQUE
    if not isinstance(args[0], BN):
        return OPAQUE
    x = args[0].v
    if name == "is_zero":
        return x == 0
    if name == "is_one":
        return x == 1
    if name == "is_negative":
        return x < 0
    if name == "is_positive":
        return x > 0
    if name == "is_power_of_two":
        return x > 0 and x & (x - 1) == 0
    # reinterpretations keep the operand's own digit count (it may differ from the world's N)
    if name in ("to_bits", "cast_unsigned") and args[0].adt in SIGNED:
        return W.wrap(TWIN[args[0].adt], x, args[0].n)
    if name in ("from_bits",) and adt in SIGNED:
        return W.wrap(adt, x, args[0].n)
    if name == "cast_signed" and args[0].adt in UNSIGNED:
        return W.wrap(TWIN[args[0].adt], x, args[0].n)
    if len(args) == 2 and isinstance(args[1], BN) and args[1].adt == args[0].adt:
        return _cmp_name(name, x, args[1].v)
    return OPAQUE


_PRIM_TRAIT = re.compile(r"^<&?(u8|u16|u32|u64|u128|usize|i8|i16|i32|i64|i128|isize) as core::(cmp|ops|convert)::(\w+)(<.*>)?>::(\w+)$")
_PRIM_INH = re.compile(r"^(u8|u16|u32|u64|u128|usize|i8|i16|i32|i64|i128|isize|f32|f64)::(\w+)$")
_BINOPS = {"add": "Add", "sub": "Sub", "mul": "Mul", "bitand": "BitAnd", "bitor": "BitOr", "bitxor": "BitXor", "shl": "Shl",
           "shr": "Shr", "eq": "Eq", "ne": "Ne", "lt": "Lt", "le": "Le", "gt": "Gt", "ge": "Ge", "div": "Div", "rem": "Rem"}


def _prim_atom(name, label, t, env, W):
    """methods of primitive integers / floats and the crate's float-part helpers (None: not one of them)"""
    m = _PRIM_TRAIT.match(label)
    if m:
        args = [ev(a, env, W) for a in t[2]]
        if m.group(3) == "TryFrom" and name == "try_from" and len(args) == 1 and isinstance(args[0], BN) and args[0].adt in UNSIGNED:
            ty = m.group(1)
            b = PRIM_BITS[ty]
            hi_ = (1 << (b - 1)) - 1 if ty.startswith("i") else (1 << b) - 1
            return ("Ok", PI(ty, args[0].v)) if args[0].v <= hi_ else ("Err", OPAQUE)
        if m.group(3) == "TryFrom" and name == "try_from" and len(args) == 1 and isinstance(args[0], BN) and args[0].adt in SIGNED:
            # the signed conversion has its own digit loop: trusted by contract like the unsigned one
            ty = m.group(1)
            b = PRIM_BITS[ty]
            lo_, hi_ = (-(1 << (b - 1)), (1 << (b - 1)) - 1) if ty.startswith("i") else (0, (1 << b) - 1)
            return ("Ok", PI(ty, args[0].v)) if lo_ <= args[0].v <= hi_ else ("Err", OPAQUE)
        if m.group(3) == "TryFrom" and name == "try_from" and len(args) == 1 and isinstance(args[0], PI):
            ty = m.group(1)
            b = PRIM_BITS[ty]
            lo, hi = (-(1 << (b - 1)), (1 << (b - 1)) - 1) if ty.startswith("i") else (0, (1 << b) - 1)
            return ("Ok", PI(ty, args[0].v)) if lo <= args[0].v <= hi else ("Err", OPAQUE)
        if m.group(2) == "cmp" and len(args) == 2 and isinstance(args[0], PI) and isinstance(args[1], PI):
            x_, y_ = args[0].v, args[1].v
            if name == "cmp":
                return 255 if x_ < y_ else (0 if x_ == y_ else 1)
            if name == "partial_cmp":
                return ("Some", 255 if x_ < y_ else (0 if x_ == y_ else 1))
            if name == "max":
                return PI(args[0].ty, max(x_, y_))
            if name == "min":
                return PI(args[0].ty, min(x_, y_))
        if name == "neg" and len(args) == 1 and isinstance(args[0], PI):
            return _wrap_prim(args[0].ty, -args[0].v)
        if name == "not" and len(args) == 1 and isinstance(args[0], PI):
            return _wrap_prim(args[0].ty, ~args[0].v)
        if name in _BINOPS and len(args) == 2 and isinstance(args[0], PI) and isinstance(args[1], PI):
            return _binop(_BINOPS[name], args[0], PI(args[0].ty, args[1].v) if name not in ("shl", "shr") else args[1])
        return OPAQUE
    m = _PRIM_INH.match(label)
    if m:
        args = [ev(a, env, W) for a in t[2]]
        ty = m.group(1)
        if ty in ("f32", "f64"):
            if name == "from_bits" and len(args) == 1 and isinstance(args[0], PI):
                return FL(ty, args[0].v & ((1 << (32 if ty == "f32" else 64)) - 1))
            if len(args) == 1 and isinstance(args[0], FL):
                f = args[0]
                if name == "is_nan":
                    return f.is_nan()
                if name == "is_infinite":
                    return f.is_inf()
                if name == "is_finite":
                    return not (f.is_inf() or f.is_nan())
                if name == "is_sign_negative":
                    return f.sign
                if name == "to_bits":
                    return PI("u32" if ty == "f32" else "u64", f.bits)
            return OPAQUE
        if args and isinstance(args[0], PI):
            x = args[0].v
            b = PRIM_BITS[ty]
            ux = x & ((1 << b) - 1)
            if name == "leading_zeros":
                return PI("u32", b - ux.bit_length())
            if name == "trailing_zeros":
                return PI("u32", b if ux == 0 else (ux & -ux).bit_length() - 1)
            if name == "count_ones":
                return PI("u32", bin(ux).count("1"))
            if name in ("overflowing_add", "overflowing_sub", "overflowing_mul") and len(args) == 2 and isinstance(args[1], PI):
                r_ = x + args[1].v if name == "overflowing_add" else (x - args[1].v if name == "overflowing_sub" else x * args[1].v)
                lo_, hi_ = (-(1 << (b - 1)), (1 << (b - 1)) - 1) if ty.startswith("i") else (0, (1 << b) - 1)
                return ("tuple", (_wrap_prim(ty, r_), not (lo_ <= r_ <= hi_)))
            if name in ("checked_shr", "checked_shl") and len(args) == 2 and isinstance(args[1], PI):
                if not (0 <= args[1].v < b):
                    return ("None",)
                return ("Some", _wrap_prim(ty, x >> args[1].v if name == "checked_shr" else x << args[1].v))
            if name == "is_negative":
                return x < 0
            if name in ("saturating_sub", "saturating_add", "wrapping_sub", "wrapping_add") and len(args) == 2 and isinstance(args[1], PI):
                r_ = x - args[1].v if name.endswith("sub") else x + args[1].v
                if name.startswith("saturating"):
                    lo_, hi_ = (-(1 << (b - 1)), (1 << (b - 1)) - 1) if ty.startswith("i") else (0, (1 << b) - 1)
                    return PI(ty, min(max(r_, lo_), hi_))
                return _wrap_prim(ty, r_)
            if name == "wrapping_neg" and len(args) == 1:
                return _wrap_prim(ty, -x)
            if name == "wrapping_mul" and len(args) == 2 and isinstance(args[1], PI):
                return _wrap_prim(ty, x * args[1].v)
            if name == "wrapping_shr" and len(args) == 2 and isinstance(args[1], PI):
                return _wrap_prim(ty, x >> (args[1].v % b))
            if name == "wrapping_shl" and len(args) == 2 and isinstance(args[1], PI):
                return _wrap_prim(ty, x << (args[1].v % b))
        return None
    mp = re.match(r"^(?:core::str::<impl str>|str)::parse::<(u8|u16|u32|u64|u128|usize|i8|i16|i32|i64|i128|isize)>$", label)
    if mp and len(t[2]) == 1:
        s_ = ev(t[2][0], env, W)
        if isinstance(s_, tuple) and s_ and s_[0] == "str" and all(isinstance(c, PI) for c in s_[1]):
            ty = mp.group(1)
            text = bytes(c.v & 255 for c in s_[1])
            b = PRIM_BITS[ty]
            lo_, hi_ = (-(1 << (b - 1)), (1 << (b - 1)) - 1) if ty.startswith("i") else (0, (1 << b) - 1)
            body, neg = text, False
            if text[:1] == b"+":
                body = text[1:]
            elif text[:1] == b"-" and ty.startswith("i"):
                body, neg = text[1:], True
            if not body or not all(48 <= c <= 57 for c in body):
                return ("Err", OPAQUE)
            v_ = int(body) * (-1 if neg else 1)
            return ("Ok", PI(ty, v_)) if lo_ <= v_ <= hi_ else ("Err", OPAQUE)
        return OPAQUE
    mf = re.match(r"^(?:core::slice::<impl \[T\]>|\[T\])::(first|last)(::<.*>)?$", label)
    if mf and len(t[2]) == 1:
        s_ = ev(t[2][0], env, W)
        if isinstance(s_, tuple) and s_ and s_[0] in ("arr", "str") and isinstance(s_[1], tuple):
            if not s_[1]:
                return ("None",)
            return ("Some", s_[1][0] if mf.group(1) == "first" else s_[1][-1])
        return OPAQUE
    mi = re.match(r"^<(u8|u16|u32|u64|u128|usize|i8|i16|i32|i64|i128|isize) as num_integer::Integer>::(is_even|is_odd)$", label)
    if mi and len(t[2]) == 1:
        a_ = ev(t[2][0], env, W)
        if isinstance(a_, PI):
            return (a_.v % 2 == 0) if mi.group(2) == "is_even" else (a_.v % 2 == 1)
        return OPAQUE
    mo = re.match(r"^core::option::Option(::)?<T>::(map|and_then)(::<.*>)?$", label)
    if mo and len(t[2]) == 2:
        o = ev(t[2][0], env, W)
        if o == ("None",):
            return ("None",)
        if isinstance(o, tuple) and o and o[0] == "Some":
            r_ = _apply_closure(t[2][1], [o[1]], env, W)
            if r_ is OPAQUE:
                return OPAQUE
            return ("Some", r_) if mo.group(2) == "map" else r_
        return OPAQUE
    # ---- a finite iterator model ("iter", (items...)): the documented meaning of the std adaptors that bnum's Sum /
    #      Product impls use; closures are applied through their own summaries
    mit = re.match(r"^(?:core::iter::)?Iterator::(fold|copied|cloned|map|reduce|sum|product|rev)(::<.*>)?$", label)
    if mit and t[2]:
        it = ev(t[2][0], env, W)
        if not (isinstance(it, tuple) and it and it[0] == "iter"):
            return OPAQUE
        items = list(it[1])
        op = mit.group(1)
        if op in ("copied", "cloned") and len(t[2]) == 1:
            return it
        if op == "rev" and len(t[2]) == 1:
            return ("iter", tuple(reversed(items)))
        if op == "map" and len(t[2]) == 2:
            out_ = []
            for x_ in items:
                y_ = _apply_closure(t[2][1], [x_], env, W)
                if y_ is OPAQUE:
                    return OPAQUE
                out_.append(y_)
            return ("iter", tuple(out_))
        if op == "fold" and len(t[2]) == 3:
            acc = ev(t[2][1], env, W)
            for x_ in items:
                if acc is OPAQUE:
                    return OPAQUE
                acc = _apply_closure(t[2][2], [acc, x_], env, W)
            return acc
        if op == "reduce" and len(t[2]) == 2:
            if not items:
                return ("None",)
            acc = items[0]
            for x_ in items[1:]:
                acc = _apply_closure(t[2][1], [acc, x_], env, W)
                if acc is OPAQUE:
                    return OPAQUE
            return ("Some", acc)
        if op in ("sum", "product") and len(t[2]) == 1 and mit.group(2):
            # Iterator::sum::<I, S>() is S::sum(iter): descend into the crate's own Sum / Product impl for S
            g = [x.strip() for x in mit.group(2)[3:-1].split(", ")]
            tgt = g[-1]
            ma = re.match(r"^(BUintD32|BUintD16|BUintD8|BUint|BIntD32|BIntD16|BIntD8|BInt)<N>$", tgt)
            if ma and _DESCEND is not None:
                trait = "core::iter::Sum" if op == "sum" else "core::iter::Product"
                for item_ty in (tgt, "&" + tgt):
                    lab = "<%s as %s<%s>>::%s" % (tgt, trait, item_ty, op)
                    if _DESCEND[1].root_of(lab) is not None:
                        return _descend(lab, None, ("C", lab, (t[2][0],)), env, W)
        return OPAQUE
    mud = re.match(r"^core::option::Option(::)?<T>::unwrap_or_default(::<.*>)?$", label)
    if mud and len(t[2]) == 1:
        o = ev(t[2][0], env, W)
        if isinstance(o, tuple) and o and o[0] == "Some":
            return o[1]
        if o == ("None",) and mud.group(2) and _DESCEND is not None:
            tgt = mud.group(2)[3:-1].strip()
            lab = "<%s as core::default::Default>::default" % tgt
            if re.match(r"^(BUintD32|BUintD16|BUintD8|BUint|BIntD32|BIntD16|BIntD8|BInt)<N>$", tgt) and _DESCEND[1].root_of(lab) is not None:
                return _descend(lab, None, ("C", lab, ()), env, W)
        return OPAQUE
    mr = re.match(r"^core::ops::(Range|RangeInclusive)<Idx>::contains(::<.*>)?$", label)
    if mr and len(t[2]) == 2:
        r_, x_ = ev(t[2][0], env, W), ev(t[2][1], env, W)
        if isinstance(r_, tuple) and r_ and r_[0] == "struct" and isinstance(x_, PI):
            f = dict(r_[2])
            lo_, hi_ = f.get("start"), f.get("end")
            if isinstance(lo_, PI) and isinstance(hi_, PI) and (mr.group(1) == "Range" or f.get("exhausted") in (False, None, 0)):
                return lo_.v <= x_.v and (x_.v < hi_.v if mr.group(1) == "Range" else x_.v <= hi_.v)
        return OPAQUE
    if re.match(r"^core::option::Option(::)?<T>::unwrap_unchecked(::<.*>)?$", label) and len(t[2]) == 1:
        o = ev(t[2][0], env, W)
        if isinstance(o, tuple) and o and o[0] == "Some":
            return o[1]
        return OPAQUE          # None: undefined behaviour, unconstrained
    if re.match(r"^core::option::Option(::)?<T>::unwrap_or(::<.*>)?$", label) and len(t[2]) == 2:
        o = ev(t[2][0], env, W)
        if isinstance(o, tuple) and o and o[0] == "Some":
            return o[1]
        if o == ("None",):
            return ev(t[2][1], env, W)
        return OPAQUE
    if label.startswith("<core::option::Option<T> as core::ops::Try>::branch") and len(t[2]) == 1:
        o = ev(t[2][0], env, W)
        if isinstance(o, tuple) and o and o[0] == "Some":
            return ("Continue", o[1])
        if o == ("None",):
            return ("Break", ("None",))
        return OPAQUE
    mm = re.match(r"^(BUintD32|BUintD16|BUintD8|BUint)<N>::from_buf_radix_internal::<N, (true|false), (true|false)>$", label)
    if mm and len(t[2]) == 3:
        # contract of the parser core (the part of C10 that no rule decides): optional sign byte skipped, every
        # remaining byte must be a digit below the radix, the value must fit
        buf, radix, sign = (ev(x, env, W) for x in t[2])
        if not (isinstance(buf, tuple) and buf and buf[0] == "arr" and isinstance(radix, PI) and isinstance(sign, bool)):
            return OPAQUE
        if not (2 <= radix.v <= 255):
            return OPAQUE          # digits are compared as u8: radix 256 is outside the core's domain
        adt, from_str, be = mm.group(1), mm.group(2) == "true", mm.group(3) == "true"

        def err(kind):
            vi = {"Empty": 0, "InvalidDigit": 1, "PosOverflow": 2, "NegOverflow": 3, "Zero": 4}[kind]
            return ("Err", ("struct", "ParseIntError", (("kind", ("enumv", "IntErrorKind", kind, vi)),)))
        bs = [d.v for d in buf[1]]
        if sign:
            if len(bs) <= 1:
                return err("InvalidDigit")
            bs = bs[1:]
        if not bs:
            return OPAQUE
        ds = []
        for bt in bs:
            if from_str:
                c = chr(bt)
                dv = bt - 48 if "0" <= c <= "9" else (bt - 87 if "a" <= c <= "z" else (bt - 55 if "A" <= c <= "Z" else 255))
            else:
                dv = bt
            if dv >= radix.v:
                return err("InvalidDigit")
            ds.append(dv)
        if not be:
            ds = ds[::-1]
        val = 0
        for dv in ds:
            val = val * radix.v + dv
        if val >= (1 << W.bits(adt)):
            return err("PosOverflow")
        return ("Ok", W.wrap(adt, val))
    if label in ("str::is_empty",) or label.startswith("[T]::is_empty"):
        a = ev(t[2][0], env, W)
        if isinstance(a, tuple) and a and a[0] in ("arr", "str"):
            return len(a[1]) == 0
        return OPAQUE
    if "rand::distributions::uniform::SampleBorrow" in label and label.split("::<")[0].endswith("::borrow") and len(t[2]) == 1:
        return ev(t[2][0], env, W)
    if label.lstrip("?").startswith("rand::Rng::gen::<") and "rng_word" in W.cparams:
        mm = re.search(r"(BUintD32|BUintD16|BUintD8|BUint|BIntD32|BIntD16|BIntD8|BInt)<N>>$", label)
        if mm:
            return W.wrap(mm.group(1), W.cparams["rng_word"](W, mm.group(1)))
        return OPAQUE
    if (label.startswith("[T]::len") or label == "str::len") and len(t[2]) == 1:
        a = ev(t[2][0], env, W)
        if isinstance(a, tuple) and a and a[0] in ("arr", "str"):
            return PI("usize", len(a[1]))
        return OPAQUE
    if label.startswith("str::starts_with::<char>") and len(t[2]) == 2:
        # `s.starts_with(c)` for an ASCII char: the first byte of the text equals it
        a = ev(t[2][0], env, W)
        ct = t[2][1]
        cv = ct[2] if (isinstance(ct, tuple) and len(ct) > 2 and ct[0] == "K" and ct[1] == "char" and isinstance(ct[2], int)) else None
        if cv is None:
            c_ = ev(ct, env, W)
            cv = c_.v if isinstance(c_, PI) else None
        if isinstance(a, tuple) and a and a[0] == "str" and cv is not None and cv < 128 and all(isinstance(d, PI) for d in a[1]):
            return len(a[1]) > 0 and a[1][0].v == cv
        return OPAQUE
    if label == "str::as_bytes" and len(t[2]) == 1:
        a = ev(t[2][0], env, W)
        if isinstance(a, tuple) and a and a[0] == "str":
            return ("arr", a[1])
        return OPAQUE
    if label == "core::str::from_utf8" and len(t[2]) == 1:
        a = ev(t[2][0], env, W)
        if isinstance(a, tuple) and a and a[0] == "arr" and all(isinstance(d, PI) and d.v < 128 for d in a[1]):
            return ("Ok", ("str", a[1]))
        return OPAQUE
    if "core::ops::FromResidual<core::option::Option<" in label and label.endswith("::from_residual"):
        return ("None",)
    if label.startswith("<[T; N] as core::cmp::PartialEq<[U; N]>>::") and len(t[2]) == 2:
        a, b = ev(t[2][0], env, W), ev(t[2][1], env, W)
        if all(isinstance(x, tuple) and x and x[0] == "arr" and all(isinstance(d, PI) for d in x[1]) for x in (a, b)):
            eq = [d.v for d in a[1]] == [d.v for d in b[1]]
            return eq if name == "eq" else (not eq)
        return OPAQUE
    if label.endswith("ConvertFloatParts>::into_normalised_signed_parts") and len(t[2]) == 1:
        f = ev(t[2][0], env, W)
        if not isinstance(f, FL):
            return OPAQUE
        mty = "u32" if f.ty == "f32" else "u64"
        bias = (1 << (f.width - f.dig - 1)) - 1
        if f.rawexp == 0:
            exp, mant = 1 - bias, f.rawmant
            if mant:
                return OPAQUE          # subnormals: normalisation details are not modelled
        else:
            exp, mant = f.rawexp - bias, f.rawmant | (1 << (f.dig - 1))
        return ("tuple", (f.sign, PI("i32", exp), PI(mty, mant)))
    m2 = re.match(r"^<(BUintD32|BUintD16|BUintD8|BUint|BIntD32|BIntD16|BIntD8|BInt)<N> as cast::CastFrom<(u8|u16|u32|u64|u128|usize|i8|i16|i32|i64|i128|isize)>>::cast_from(::<([NM])>)?$", label)
    if m2 and len(t[2]) == 1:
        a = ev(t[2][0], env, W)
        if isinstance(a, PI):
            if m2.group(4) == "M":
                if W.m is None:
                    return OPAQUE
                return W.wrap(m2.group(1), a.v, W.m)      # the impl's digit count is the caller's M
            return W.wrap(m2.group(1), a.v)
        return OPAQUE
    m2 = re.match(r"^<(BUintD32|BUintD16|BUintD8|BUint)<N> as core::ops::Add<(u8|u16|u32|u64)>>::add$", label)
    if m2 and len(t[2]) == 2:
        a, b = ev(t[2][0], env, W), ev(t[2][1], env, W)
        if isinstance(a, BN) and isinstance(b, PI):
            return W.wrap(m2.group(1), a.v + b.v)
        return OPAQUE
    m2 = re.match(r"^(BUintD32|BUintD16|BUintD8|BUint)<N>::div_rem_digit$", label)
    if m2 and len(t[2]) == 2:
        a, b = ev(t[2][0], env, W), ev(t[2][1], env, W)
        if isinstance(a, BN) and isinstance(b, PI) and b.v != 0:
            return ("tuple", (W.wrap(m2.group(1), a.v // b.v), PI(b.ty, a.v % b.v)))
        return OPAQUE
    m2 = re.match(r"^<(u8|u16|u32|u64|u128|usize|i8|i16|i32|i64|i128|isize) as core::convert::TryFrom<(BUintD32|BUintD16|BUintD8|BUint)<[NM]>>>::try_from(::<[NM]>)?$", label)
    if m2 and len(t[2]) == 1:
        a = ev(t[2][0], env, W)
        if isinstance(a, BN) and a.adt == m2.group(2):
            ty = m2.group(1)
            b = PRIM_BITS[ty]
            hi_ = (1 << (b - 1)) - 1 if ty.startswith("i") else (1 << b) - 1
            return ("Ok", PI(ty, a.v)) if 0 <= a.v <= hi_ else ("Err", OPAQUE)
        return OPAQUE
    # the signed twin (its own digit loop): Ok exactly when the value is representable
    m2 = re.match(r"^<(u8|u16|u32|u64|u128|usize|i8|i16|i32|i64|i128|isize) as core::convert::TryFrom<(BIntD32|BIntD16|BIntD8|BInt)<[NM]>>>::try_from(::<[NM]>)?$", label)
    if m2 and len(t[2]) == 1:
        a = ev(t[2][0], env, W)
        if isinstance(a, BN) and a.adt == m2.group(2):
            ty = m2.group(1)
            b = PRIM_BITS[ty]
            lo_, hi_ = (-(1 << (b - 1)), (1 << (b - 1)) - 1) if ty.startswith("i") else (0, (1 << b) - 1)
            return ("Ok", PI(ty, a.v)) if lo_ <= a.v <= hi_ else ("Err", OPAQUE)
        return OPAQUE
    m2 = re.match(r"^<(BUintD32|BUintD16|BUintD8|BUint)<N> as num_traits::FromPrimitive>::from_(u8|u16|u32|u64|u128|usize)$", label)
    if m2 and len(t[2]) == 1:
        a = ev(t[2][0], env, W)
        if isinstance(a, PI):
            return ("Some", W.wrap(m2.group(1), a.v)) if a.v < (1 << W.bits(m2.group(1))) else ("None",)
        return OPAQUE
    # From<signed primitive> for a signed bnum integer (its own digit loop): the same value, when the target holds the source type
    m2 = re.match(r"^<(BIntD32|BIntD16|BIntD8|BInt)<N> as core::convert::From<(i8|i16|i32|i64|i128|isize)>>::from$", label)
    if m2 and len(t[2]) == 1:
        a = ev(t[2][0], env, W)
        if isinstance(a, PI) and W.bits(m2.group(1)) >= PRIM_BITS[m2.group(2)]:
            return W.wrap(m2.group(1), a.v)
        return OPAQUE
    m2 = re.match(r"^<(BUintD32|BUintD16|BUintD8|BUint)<N> as core::convert::From<(u8|u16|u32|u64|u128|usize)>>::from$", label)
    if m2 and len(t[2]) == 1:
        a = ev(t[2][0], env, W)
        if isinstance(a, PI) and a.v < (1 << W.bits(m2.group(1))):
            return W.wrap(m2.group(1), a.v)
        return OPAQUE
    m2 = re.match(r"^<(u8|u16|u32|u64|u128|usize|i8|i16|i32|i64|i128|isize) as cast::CastFrom<(BUintD32|BUintD16|BUintD8|BUint|BIntD32|BIntD16|BIntD8|BInt)<[NM]>>>::cast_from(::<[NM]>)?$", label)
    if m2 and len(t[2]) == 1:
        a = ev(t[2][0], env, W)
        if isinstance(a, BN) and a.adt == m2.group(2):
            return _wrap_prim(m2.group(1), a.v)
        return OPAQUE
    return None


def _arith(name, label, args, W, generics=None):
    adt = _adt_of_label(label)
    if adt is not None and name == "power_of_two" and len(args) == 1 and isinstance(args[0], PI) and adt in UNSIGNED:
        if 0 <= args[0].v < W.bits(adt):
            return W.wrap(adt, 1 << args[0].v)
        return OPAQUE
    if adt is None or not args or not isinstance(args[0], BN) or args[0].adt != adt:
        return OPAQUE
    if label.startswith("<"):
        # trait-impl terminals with a documented meaning
        if adt in UNSIGNED and name == "gcd" and "num_integer::Integer" in label and len(args) == 2 and isinstance(args[1], BN):
            import math
            return W.wrap(adt, math.gcd(args[0].v, args[1].v))
        mm = re.match(r"^to_(u8|u16|u32|u64|u128|usize|i8|i16|i32|i64|i128|isize)$", name)
        if adt in UNSIGNED and mm and "ToPrimitive" in label and len(args) == 1:
            ty = mm.group(1)
            b = PRIM_BITS[ty]
            hi_ = (1 << (b - 1)) - 1 if ty.startswith("i") else (1 << b) - 1
            return ("Some", PI(ty, args[0].v)) if args[0].v <= hi_ else ("None",)
        if adt in SIGNED and mm and "ToPrimitive" in label and len(args) == 1:
            # the signed export loops (to_iN of a signed bnum integer): Some exactly when the value is representable
            ty = mm.group(1)
            b = PRIM_BITS[ty]
            lo_, hi_ = (-(1 << (b - 1)), (1 << (b - 1)) - 1) if ty.startswith("i") else (0, (1 << b) - 1)
            return ("Some", PI(ty, args[0].v)) if lo_ <= args[0].v <= hi_ else ("None",)
        return OPAQUE
    w = W.bits_of(args[0])
    if args[0].n and name not in ("leading_zeros", "leading_ones", "bits", "trailing_zeros", "count_ones", "count_zeros"):
        return OPAQUE          # values at the second width: only the counting atoms are modelled
    signed = adt in SIGNED
    lo, hi = (-(1 << (w - 1)), (1 << (w - 1)) - 1) if signed else (0, (1 << w) - 1)
    x = args[0].v
    if name in ("overflowing_add", "overflowing_sub", "overflowing_mul"):
        if len(args) != 2 or not isinstance(args[1], BN) or args[1].adt != adt:
            return OPAQUE
        y = args[1].v
        r = x + y if name == "overflowing_add" else (x - y if name == "overflowing_sub" else x * y)
        return ("tuple", (W.wrap(adt, r), not (lo <= r <= hi)))
    if name == "overflowing_neg" and len(args) == 1:
        r = -x
        return ("tuple", (W.wrap(adt, r), not (lo <= r <= hi)))
    if name == "div_rem_unchecked" and not signed and len(args) == 2 and isinstance(args[1], BN) and args[1].adt == adt:
        if args[1].v == 0:
            return OPAQUE
        return ("tuple", (W.wrap(adt, x // args[1].v), W.wrap(adt, x % args[1].v)))
    if name == "not" and len(args) == 1:
        return W.wrap(adt, ~x)
    if name in ("bitand", "bitor", "bitxor") and len(args) == 2 and isinstance(args[1], BN) and args[1].adt == adt:
        m_ = (1 << w) - 1
        xa, ya = x & m_, args[1].v & m_
        return W.wrap(adt, xa & ya if name == "bitand" else (xa | ya if name == "bitor" else xa ^ ya))
    if not signed and len(args) == 2 and isinstance(args[1], BN) and args[1].adt == adt:
        y = args[1].v
        if name == "long_mul":
            return ("tuple", (W.wrap(adt, x * y), x * y > hi))
        if name == "widening_mul":
            return ("tuple", (W.wrap(adt, x * y), W.wrap(adt, (x * y) >> w)))
    if not signed and len(args) == 2 and isinstance(args[1], PI):
        sft = args[1].v
        if name == "unchecked_shl_internal" and 0 <= sft < w:
            return W.wrap(adt, x << sft)
        if name == "unchecked_shr_internal" and 0 <= sft < w:
            return W.wrap(adt, x >> sft)
        if name == "unchecked_shr_pad_internal" and 0 <= sft < w and generics:
            neg = "true" in generics
            r = x >> sft
            if neg:
                r |= ((1 << sft) - 1) << (w - sft)
            return W.wrap(adt, r)
        if name == "unchecked_rotate_left" and 0 <= sft <= w:
            sft %= w
            return W.wrap(adt, (x << sft) | (x >> (w - sft)) if sft else x)
        if name in ("overflowing_pow", "checked_pow", "wrapping_pow") and sft >= 0:
            if x <= 1:
                r, over = (1 if (sft == 0 or x == 1) else 0), False
            elif sft >= w:
                r, over = pow(x, sft, 1 << w), True
            else:
                full = x ** sft
                r, over = full, full > hi
            if name == "overflowing_pow":
                return ("tuple", (W.wrap(adt, r), over))
            if name == "wrapping_pow":
                return W.wrap(adt, r)
            return ("None",) if over else ("Some", W.wrap(adt, r))
        if name == "bit" and 0 <= sft < w:
            return bool((x >> sft) & 1)
    if not signed and name == "power_of_two" and False:
        return OPAQUE
    if name == "unsigned_abs" and signed and len(args) == 1:
        return W.wrap(TWIN[adt], abs(x))
    if not signed and len(args) == 1:
        if name == "leading_zeros":
            return PI("u32", w - x.bit_length())
        if name == "bits":
            return PI("u32", x.bit_length())
        if name == "trailing_zeros":
            return PI("u32", w if x == 0 else (x & -x).bit_length() - 1)
        if name == "count_ones":
            return PI("u32", bin(x).count("1"))
        if name == "count_zeros":
            return PI("u32", w - bin(x).count("1"))
        if name == "last_digit_index":
            db = DIGIT_BITS[DIGIT[adt]]
            return PI("usize", max(0, (x.bit_length() - 1) // db) if x else 0)
        if name == "leading_ones":
            return PI("u32", w - (x ^ ((1 << w) - 1)).bit_length())
        if name == "trailing_ones":
            y = x ^ ((1 << w) - 1)
            return PI("u32", w if y == 0 else (y & -y).bit_length() - 1)
        if name == "swap_bytes":
            return W.wrap(adt, int.from_bytes(x.to_bytes(w // 8, "little"), "big"))
        if name == "reverse_bits":
            return W.wrap(adt, int(bin(x)[2:].zfill(w)[::-1], 2))
    return OPAQUE


FORCED_ATOMS = {"div_rem_unchecked"}


def _is_local_wrapper(label):
    if _DESCEND is None:
        return False
    S, F = _DESCEND
    root = F.root_of(label)
    return root is not None and S.is_wrapper(root, as_root=True)


_DESCEND = None        # set by core: (Summarizer, Facts)
_DEPTH = [0]


def _apply_closure(cterm, args, env, W):
    """value of calling the closure term on already evaluated arguments (its body must be a summarisable wrapper)"""
    if _DESCEND is None or _DEPTH[0] > 6 or not (isinstance(cterm, tuple) and cterm and cterm[0] == "CLOS"):
        return OPAQUE
    S, F = _DESCEND
    root = F.root_of(cterm[1])
    if root is None:
        # closures are not roots: take the instance created for the enclosing function's identity instantiation
        d = F.lookup(cterm[1])
        cands = [n for n, i in enumerate(F.instances) if i["d"] == d] if d is not None else []
        if not cands:
            return OPAQUE
        root = cands[0]         # instances of one closure differ only in the (unused here) iterator type arguments
    if F.instances[root]["d"] not in F.bodies:
        return OPAQUE
    tree = S.summary(root)
    if tree is None or tree[0] == "?":
        return OPAQUE
    env2 = {0: ("tuple", tuple(ev(c, env, W) for c in cterm[2]))}
    for i, a in enumerate(args):
        env2[i + 1] = a
    _DEPTH[0] += 1
    try:
        o, path = outcome(tree, env2, W)
    finally:
        _DEPTH[0] -= 1
    if o[0] == "panic":
        raise PanicReached(o[1], cterm[1])
    if o[0] == "ret":
        return o[1]
    return OPAQUE


def _descend(label, generic_suffix, t, env, W):
    """Interpret a call of a local wrapper that was too large to inline by walking its own guard tree."""
    if _DESCEND is None or _DEPTH[0] > 6:
        return OPAQUE
    S, F = _DESCEND
    if generic_suffix:
        base = label[: -len(generic_suffix)]
        root = F.find_instance(base, [x.strip() for x in generic_suffix[3:-1].split(", ")])
    else:
        root = F.root_of(label)
    if root is None or F.instances[root]["d"] not in F.bodies or F.instances[root]["k"] != "item":
        return OPAQUE
    tree = S.summary(root)
    if tree is None or tree[0] == "?":
        return OPAQUE
    W2 = _callee_world(F, root, W)
    if W2 is None:
        return OPAQUE
    env2 = {}
    for i, a in enumerate(t[2]):
        env2[i] = _retag(ev(a, env, W), W, W2)
    _DEPTH[0] += 1
    try:
        o, path = outcome(tree, env2, W2)
    finally:
        _DEPTH[0] -= 1
    if o[0] == "panic":
        raise PanicReached(o[1], label)
    if o[0] == "ret":
        return _retag(o[1], W2, W)
    return OPAQUE


def _callee_world(F, inst_idx, W):
    """The callee's own const parameters are named N / M too: bind them from the instance's generic arguments
    (`cast_from::<M, N>` inside a caller whose N is the *source* width).  None when an argument cannot be valued."""
    inst = F.instances[inst_idx]
    names = F.defs[inst["d"]].get("generics") or []
    args = inst["a"] or []
    if not names or len(names) > len(args):
        return W
    n2, m2 = W.n, W.m
    for nm, a in zip(names, args):
        if nm not in ("N", "M"):
            continue
        a = str(a).strip()
        if a == "N":
            v = W.n
        elif a == "M":
            v = W.m
        elif a.isdigit():
            v = int(a)
        else:
            return None
        if v is None:
            return None
        if nm == "N":
            n2 = v
        else:
            m2 = v
    if (n2, m2) == (W.n, W.m):
        return W
    W2 = World(n2, W.cparams, m2)
    if hasattr(W, "K"):
        W2.K = W.K
    return W2


def _retag(v, Wfrom, Wto):
    """a big-integer value carries its digit count only when it differs from the world's N: re-express it for another world"""
    if Wfrom is Wto:
        return v
    if isinstance(v, BN):
        actual = v.n or Wfrom.n
        return BN(v.adt, v.v, None if actual == Wto.n else actual)
    if isinstance(v, tuple):
        return tuple(_retag(x, Wfrom, Wto) for x in v)
    return v


def _cmp_name(name, x, y):
    if name == "eq":
        return x == y
    if name == "ne":
        return x != y
    if name == "lt":
        return x < y
    if name == "le":
        return x <= y
    if name == "gt":
        return x > y
    if name == "ge":
        return x >= y
    if name == "cmp":
        return 255 if x < y else (0 if x == y else 1)
    return OPAQUE


def walk(tree, env, W):
    """Follow the guards of `tree` under `env`.  Returns (leaf-or-subtree, opaque_scrutinee or None, path)."""
    path = []
    t = tree
    while t[0] == "IF":
        try:
            v = ev(t[1], env, W)
        except PanicReached as e:
            return ("PANIC", e.cls), None, path + [(("S", "in " + e.where), e.cls)]
        if v is OPAQUE or isinstance(v, tuple):
            return t, t[1], path
        if isinstance(v, bool):
            v = int(v)
        if isinstance(v, PI):
            v = v.v & ((1 << PRIM_BITS[v.ty]) - 1)
        nxt = None
        for val, sub in t[2]:
            if val == v:
                nxt = sub
                break
        if nxt is None:
            nxt = t[3]
        path.append((t[1], v))
        t = nxt
    return t, None, path


def outcome(tree, env, W):
    """('panic', cls) | ('ret', value, term) | ('opaque', scrutinee-term) | ('unknown', reason)"""
    leaf, opq, path = walk(tree, env, W)
    if opq is not None:
        return ("opaque", opq), path
    if leaf[0] == "?":
        return ("opaque", ("S", "loop body / unsummarised code (%s)" % (leaf[1],))), path
    if leaf[0] == "PANIC":
        return ("panic", leaf[1]), path
    if leaf[0] == "RET":
        try:
            return ("ret", ev(leaf[1], env, W), leaf), path
        except PanicReached as e:
            return ("panic", e.cls), path + [(("S", "in " + e.where), e.cls)]
    return ("unknown", leaf[1]), path


def apply_effects(leaf, env, W):
    """value of *param0 after the stores recorded on a RET leaf (or OPAQUE)"""
    cur = env.get(0, OPAQUE)
    for e in leaf[2]:
        if e[0] != "store":
            return OPAQUE
        tgt, val = e[1], e[2]
        env2 = dict(env)
        env2[0] = cur
        v = ev(val, env2, W)
        if tgt == ("P", 0):
            cur = v
            continue
        # store into one digit of an unsigned value: p0.digits[i] := v
        if tgt[0] == "IX" and tgt[1] == ("F", ("P", 0), "digits") and isinstance(cur, BN) and cur.adt in UNSIGNED:
            i = ev(tgt[2], env2, W)
            if not isinstance(i, PI) or not isinstance(v, PI) or not (0 <= i.v < W.n):
                return OPAQUE
            db = DIGIT_BITS[DIGIT[cur.adt]]
            m = ((1 << db) - 1) << (db * i.v)
            cur = W.wrap(cur.adt, (cur.v & ~m) | ((v.v & ((1 << db) - 1)) << (db * i.v)))
            continue
        return OPAQUE
    return cur

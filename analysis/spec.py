"""Spec terms (the expected side of F rows), their normal forms, and the F verdict (DESIGN.md 2.3/2.4).

Spec terms are written from the property statements and the std / num-traits documentation, in terms
of *public API identities only*:

    P(i)                         parameter i (references elided)
    call(fid, *args)             call of a function by canonical identity (bnum fid or external label)
    field(t, k)                  tuple / struct field
    some(t) / none()             Option constructors
    ok(t)                        Result::Ok
    expect_some(t, cls)          match t { Some(v) => v, _ => panic!(cls) }
    expect_ok(t, cls)            match t { Ok(v) => v, _ => panic!(cls) }
    store0(t)                    *param0 := t ; return ()
    const(fid)                   associated constant, e.g. const('BUint<N>::ZERO')
    cast(t, from, to)            `as` cast between primitive integer types
    ctor(adt, variant, fields, *args)
    from_bits(adt, t)            BInt { bits: t }
    tuple(*ts)
"""
import re

from . import nf

UNIT = ("ZST", "()")


def P(i):
    return ("P", i)


def call(fid, *args):
    return ("call", fid, tuple(args))


def callg(fid, suffix, *args):
    """call of a generic function at a non-identity instantiation (never inlined), e.g. try_from::<M>"""
    return ("callg", fid, suffix, tuple(args))


def field(t, k):
    return ("field", t, k)


def some(t):
    return ("ctor", "Option", "Some", ("0",), 1, (t,))


def none():
    return ("ctor", "Option", "None", (), 0, ())


def ok(t):
    return ("ctor", "Result", "Ok", ("0",), 0, (t,))


def expect_some(t, cls):
    return ("expect", t, cls, "Some", (0, 1), 1)


def expect_ok(t, cls):
    return ("expect", t, cls, "Ok", (0, 1), 0)


def store0(t):
    return ("store0", t)


def const(fid, *args):
    return ("AC", fid, tuple(args) if args else ("N",))


def lit(ty, v):
    return ("K", ty, v)


def cast(t, frm, to):
    return ("cast", t, frm, to)


def ctor(adt, variant, fields, vi, *args):
    return ("ctor", adt, variant, tuple(fields), vi, tuple(args))


def from_bits(adt, t):
    return ("ctor", adt, adt, ("bits",), 0, (t,))


def tup(*ts):
    return ("tuple", tuple(ts))


def unit_after(t):
    """evaluate t for its effects, return ()"""
    return ("unit_after", t)


class SpecEval:
    """Normalises spec terms with the same inliner that summarises the code."""

    def __init__(self, S):
        self.S = S
        self.F = S.F
        self.budget = nf.FULL

    def tree(self, term, budget=None):
        self.budget = nf.FULL if budget is None else budget
        try:
            return nf.prune(self.ev(term, lambda v, eff: ("RET", v, eff), ()))
        finally:
            self.budget = nf.FULL

    def ev(self, t, k, eff):
        kind = t[0]
        if kind in ("P", "K", "AC", "S", "CP", "ZST"):
            return k(t, eff)
        if kind == "call":
            return self.ev_args(t[2], 0, (), lambda vals, e2: self.inline(t[1], vals, k, e2), eff)
        if kind == "callg":
            if self.F.lookup(t[1]) is None:
                raise MissingAnchor(t[1])
            gargs = [x.strip() for x in t[2].strip(":<>").split(",")]
            inst = self.F.find_instance(t[1], gargs)
            if inst is None:
                return self.ev_args(t[3], 0, (), lambda vals, e2: k(("C", t[1] + t[2], vals), e2), eff)
            return self.ev_args(t[3], 0, (), lambda vals, e2: self.inline_inst(inst, vals, k, e2), eff)
        if kind == "field":
            return self.ev(t[1], lambda v, e2: k(nf.simp(("F", v, t[2])), e2), eff)
        if kind == "ctor":
            _, adt, variant, fields, vi, args = t
            return self.ev_args(args, 0, (), lambda vals, e2: k(("CT", adt, variant, vals, fields, vi), e2), eff)
        if kind == "tuple":
            return self.ev_args(t[1], 0, (), lambda vals, e2: k(("TU", vals), e2), eff)
        if kind == "cast":
            return self.ev(t[1], lambda v, e2: k(nf.simp(("CAST", "IntToInt", v, t[2], t[3])), e2), eff)
        if kind == "expect":
            _, inner, cls, variant, dom, good = t

            def kk(v, e2):
                d = nf.simp(("D", v, dom))
                val = nf.simp(("VF", v, variant, 0))
                arms = [(x, ("PANIC", cls)) for x in dom if x != good] + [(good, k(val, e2))]
                return nf.canon_if(d, arms, ("PANIC", cls), dom)
            return self.ev(inner, kk, eff)
        if kind == "store0":
            return self.ev(t[1], lambda v, e2: ("RET", UNIT, e2 + (("store", ("P", 0), v),)), eff)
        if kind == "unit_after":
            return self.ev(t[1], lambda v, e2: k(UNIT, e2), eff)
        raise ValueError("bad spec term %r" % (t,))

    def ev_args(self, args, i, acc, k, eff):
        if i == len(args):
            return k(acc, eff)
        return self.ev(args[i], lambda v, e2: self.ev_args(args, i + 1, acc + (v,), k, e2), eff)

    def inline(self, fid, vals, k, eff):
        F, S = self.F, self.S
        root = F.root_of(fid)
        if root is None:
            if fid.startswith("@"):      # external label given verbatim
                return k(("C", fid[1:], vals), eff)
            raise MissingAnchor(fid)
        return self.inline_inst(root, vals, k, eff)

    def inline_inst(self, root, vals, k, eff):
        F, S = self.F, self.S
        if self.budget > 0 and S.is_wrapper(root):
            sub = S.summary(root, self.budget - 1 if self.budget < nf.FULL else nf.FULL)
            if sub is not None and sub[0] != "?" and nf._inlinable(sub):
                sub = nf.subst_tree(sub, vals)

                def cont(leaf):
                    if leaf[0] != "RET":
                        return leaf
                    return k(leaf[1], eff + leaf[2])
                return nf.map_leaves(sub, cont)
        return k(("C", S.label(root), vals), eff)


class MissingAnchor(Exception):
    pass


# ---------------------------------------------------------------- name algebra for distinctness
MODES = ("checked", "wrapping", "overflowing", "saturating", "strict", "unchecked", "unbounded", "carrying",
         "borrowing", "widening")

# operation stems that denote pairwise different functions (trusted table, DESIGN 2.3 argument 1)
STEMS = {
    "add", "sub", "mul", "div", "rem", "div_euclid", "rem_euclid", "div_floor", "div_ceil", "mod_floor", "neg",
    "abs", "not", "bitand", "bitor", "bitxor", "shl", "shr", "pow", "rotate_left", "rotate_right", "swap_bytes",
    "reverse_bits", "count_ones", "count_zeros", "leading_zeros", "trailing_zeros", "leading_ones",
    "trailing_ones", "cmp", "partial_cmp", "eq", "ne", "lt", "le", "gt", "ge", "min", "max", "clamp",
    "from_be_slice", "from_le_slice", "from_be", "from_le", "to_be", "to_le", "to_be_bytes", "to_le_bytes",
    "to_ne_bytes", "from_be_bytes", "from_le_bytes", "from_ne_bytes", "from_radix_be", "from_radix_le",
    "to_radix_be", "to_radix_le", "from_str_radix", "to_str_radix", "ilog", "ilog2", "ilog10", "next_power_of_two",
    "next_multiple_of", "is_power_of_two", "signum", "is_positive", "is_negative", "is_zero", "is_one",
    "add_signed", "add_unsigned", "sub_unsigned", "abs_diff", "unsigned_abs", "midpoint", "sqrt", "cbrt",
    "nth_root", "gcd", "lcm", "div_rem", "div_mod_floor", "sum", "product", "bits", "bit", "set_bit",
    "from_bits", "to_bits", "cast_signed", "cast_unsigned", "isqrt",
    # conversion families: `From::from` (value-preserving, may not truncate), `CastFrom::cast_from` / `As::as_`
    # (truncating `as` semantics), `TryFrom::try_from` (checked) are different contracts
    "from", "cast_from", "try_from",
}
# complement of a predicate (used when a forwarder negates its head)
NEGATED = {"lt": "ge", "ge": "lt", "le": "gt", "gt": "le", "eq": "ne", "ne": "eq",
           "is_negative": "is_nonnegative", "is_positive": "is_nonpositive", "is_zero": "is_nonzero"}
STEMS |= {"is_nonnegative", "is_nonpositive", "is_nonzero"}
# stems that coincide for unsigned operands
UNSIGNED_EQUIV = [{"div", "div_euclid", "div_floor"}, {"rem", "rem_euclid", "mod_floor"}, {"abs_diff"}]
# converse pairs: f(a,b) == g(b,a)
CONVERSE = {("lt", "gt"), ("gt", "lt"), ("le", "ge"), ("ge", "le")}
COMMUTATIVE_STEMS = {"add", "mul", "bitand", "bitor", "bitxor", "eq", "ne", "min", "max", "gcd", "lcm", "abs_diff",
                     "midpoint"}

_NAME_RE = re.compile(r"::([A-Za-z_0-9]+)(?:::<[^>]*>)?$")


def method_name(label):
    lab = label.lstrip("?")
    # strip trailing generic args
    m = re.search(r"::([A-Za-z_][A-Za-z_0-9]*)(::<.*>)?$", lab)
    return m.group(1) if m else lab


def stem_mode(name):
    """('mode', 'stem') of a method name; assign forms count as the plain mode of their stem."""
    if name.endswith("_assign"):
        name = name[: -len("_assign")]
    for m in MODES:
        if name.startswith(m + "_"):
            return m, name[len(m) + 1:]
    return "plain", name


def label_is_signed(label):
    return bool(re.search(r"\bBInt(D8|D16|D32)?\b", label.split("::")[0] if not label.startswith("<") else label.split(" as ")[0]))


def stem_class(stem, signed):
    if not signed:
        for cl in UNSIGNED_EQUIV:
            if stem in cl:
                return "|".join(sorted(cl))
    return stem


# ---------------------------------------------------------------- forwarder shapes
ARITH_STEMS = {"add", "sub", "mul", "neg", "shl", "shr", "pow", "abs", "next_power_of_two"}
MODE_SENSITIVE = {"add", "sub", "mul", "neg", "shl", "shr", "pow", "abs", "next_power_of_two", "div", "rem",
                  "div_euclid", "rem_euclid", "add_signed", "add_unsigned", "sub_unsigned", "next_multiple_of"}


def forwarder(tree, debug):
    """Describe a summary as a (guarded) pure forwarder, or None.

    Accepted shapes: a single RET leaf, optionally under guards all of whose other leaves are PANICs of one
    class and whose scrutinees are discriminants of a call on simple arguments (the `expect` idiom, either
    around the head call itself or around an argument conversion).  The RET value is one call wrapped in
    field projections / single-field constructors, or that value stored through parameter 0.
    Returns dict(head, args, mode, stem, store, wraps, panic, guards, signed)."""
    guards = []
    panic_cls = None
    t = tree
    while t[0] == "IF":
        scrut = t[1]
        subs = [sub for _, sub in t[2]] + [t[3]]
        nonpanic = [sub for sub in subs if not (sub[0] == "PANIC")]
        pans = [sub for sub in subs if sub[0] == "PANIC"]
        if len(nonpanic) != 1 or not pans:
            return None
        if len({p[1] for p in pans}) != 1:
            return None
        if panic_cls is not None and pans[0][1] != panic_cls:
            return None
        panic_cls = pans[0][1]
        if scrut[0] != "D" or scrut[1][0] != "C" or not all(_simple_arg(a) for a in scrut[1][2]):
            return None
        guards.append(scrut[1])
        t = nonpanic[0]
    if t[0] != "RET":
        return None
    v, effs = t[1], t[2]
    store = False
    if effs:
        if len(effs) != 1 or effs[0][0] != "store" or effs[0][1] != ("P", 0) or v != UNIT:
            return None
        v = effs[0][2]
        store = True
    wraps = []
    while True:
        if v[0] == "F":
            wraps.append("." + str(v[2]))
            v = v[1]
        elif v[0] == "VF":
            wraps.append("as " + str(v[2]))
            v = v[1]
        elif v[0] == "CT" and len(v[3]) == 1:
            wraps.append(v[1] + "::" + v[2])
            v = v[3][0]
        elif v[0] == "OUT" and v[2] == 0:
            wraps.append("out0")
            v = v[1]
        elif v[0] == "U" and v[1] == "Not":
            wraps.append("not")
            v = v[2]
        else:
            break
    if v[0] != "C":
        return None
    head, args = v[1], v[2]
    for a in args:
        if not _simple_arg(a):
            return None
    expect_head = v in guards
    name = method_name(head)
    mode, stem = stem_mode(name)
    if wraps.count("not") % 2 == 1:
        # logical negation of a predicate: only predicates with a known complement are comparable
        if stem not in NEGATED:
            return None
        stem = NEGATED[stem]
    wraps = [w for w in wraps if w != "not"]
    proj = [w for w in wraps if w.startswith(".")]
    cmode = mode
    if mode == "overflowing" and proj == [".0"]:
        cmode = "wrapping"
    elif mode == "checked" and expect_head:
        # expect(checked_x) is the strict form whatever the wording of the panic message
        cmode = "strict"
    elif mode == "plain" and stem in ARITH_STEMS:
        cmode = "strict" if debug else "wrapping"
    arg_guards = tuple(g for g in guards if g != v)
    return dict(head=head, args=args, mode=cmode, rawmode=mode, stem=stem, store=store,
                wraps=tuple(w for w in wraps if not (expect_head and w.startswith("as "))),
                panic=panic_cls, guards=arg_guards, expect_head=expect_head, signed=label_is_signed(head))


def _simple_arg(a):
    """parameter, field of a parameter, constant, or a primitive conversion of one"""
    k = a[0]
    if k in ("P", "K", "AC", "CP", "ZST", "S", "FN"):
        return True
    if k in ("F", "VF"):
        return _simple_arg(a[1])
    if k == "CAST":
        return _simple_arg(a[2])
    if k == "C":
        return len(a[2]) == 1 and _simple_arg(a[2][0])
    if k == "CT":
        return all(_simple_arg(x) for x in a[3])
    return False


def _distinct(fc, fs, debug):
    """Apply the distinctness arguments of DESIGN 2.3 to two forwarder descriptions; reason or None."""
    if fc["store"] != fs["store"]:
        return None
    signed = fc["signed"] or fs["signed"]
    sc, ss = fc["stem"], fs["stem"]
    if sc not in STEMS or ss not in STEMS:
        return None
    if stem_class(sc, signed) != stem_class(ss, signed):
        if (sc, ss) in CONVERSE:
            return None
        return "different operation: forwards to `%s` (stem %s) where the contract requires `%s` (stem %s)" % (
            fc["head"], sc, fs["head"], ss)
    # unsigned division and remainder cannot overflow: their plain / strict / wrapping forms are one function (a by-reference
    # `/=` that forwards to the by-value `/=` is not "a different overflow mode" of wrapping_div)
    no_modes = (not signed) and sc in ("div", "rem", "div_euclid", "rem_euclid") and {fc["mode"], fs["mode"]} <= {"plain", "strict", "wrapping"}
    if fc["mode"] != fs["mode"] and sc in MODE_SENSITIVE and ss in MODE_SENSITIVE and not no_modes:
        return "different overflow mode: forwards to `%s` (%s) where the contract requires `%s` (%s)" % (
            fc["head"], fc["mode"], fs["head"], fs["mode"])
    if fc["head"] != fs["head"] or fc["wraps"] != fs["wraps"] or len(fc["args"]) != len(fs["args"]):
        return None
    if fc["panic"] and fs["panic"] and fc["panic"] != fs["panic"] and fc["expect_head"] == fs["expect_head"] \
            and not fc["panic"].startswith(("other(", "dynamic", "diverges:")) \
            and not fs["panic"].startswith(("other(", "dynamic", "diverges:")):
        return "different panic class: %s where the contract requires %s" % (fc["panic"], fs["panic"])
    if fc["args"] == fs["args"]:
        if bool(fc["guards"]) != bool(fs["guards"]) and not fc["expect_head"] and not fs["expect_head"]:
            g = (fc["guards"] or fs["guards"])[0]
            if fc["guards"]:
                return "argument conversion: `%s` is guarded by a panicking `%s` where the contract requires none" % (fc["head"], g[1])
            return "argument conversion: the contract requires the panicking conversion `%s` before `%s`" % (g[1], fc["head"])
        return None
    if sorted(map(repr, fc["args"])) == sorted(map(repr, fs["args"])):
        if sc in COMMUTATIVE_STEMS:
            return None
        return "operand order: `%s` receives %s where the contract requires %s" % (
            fc["head"], _show_args(fc["args"]), _show_args(fs["args"]))
    diffs = [(a, b) for a, b in zip(fc["args"], fs["args"]) if a != b]
    if len(diffs) != 1:
        return None
    a, b = diffs[0]
    if a[0] in ("K", "AC") and b[0] in ("K", "AC"):
        return "different constant: `%s` receives %s where the contract requires %s" % (
            fc["head"], nf.show_term(a), nf.show_term(b))
    if _cast_source(a) == _cast_source(b) and _cast_source(a)[0] == "P":
        la, lb = _is_lossy_cast(a), _is_lossy_cast(b)
        ga = any(_mentions(a, g) for g in fc["guards"])
        gb = any(_mentions(b, g) for g in fs["guards"])
        if la and gb and not ga:
            return "argument conversion: `%s` receives the truncating cast %s where the contract requires the checked conversion %s (they differ for every amount that does not fit)" % (
                fc["head"], nf.show_term(a), nf.show_term(b))
        if ga and lb and not gb:
            return "argument conversion: `%s` receives the panicking conversion %s where the contract requires the wrapping cast %s" % (
                fc["head"], nf.show_term(a), nf.show_term(b))
    if a[0] == "P" and b[0] == "P":
        return "wrong operand: `%s` receives %s where the contract requires %s" % (
            fc["head"], nf.show_term(a), nf.show_term(b))
    return None


def _mentions(t, g):
    if t == g:
        return True
    if isinstance(t, tuple):
        return any(_mentions(x, g) for x in t if isinstance(x, tuple))
    return False


def compare(code_levels, spec_levels, debug):
    """F verdict from unfolding levels (index 0 = direct form ... last = full normal form).

    PROVED iff the full normal forms are equal.  VIOLATED iff they differ *and* some pair of levels are
    both pure forwarders to which one of the distinctness arguments applies.  Otherwise UNDECIDED."""
    code_tree, spec_tree = code_levels[-1], spec_levels[-1]
    if code_tree == spec_tree:
        return "PROVED", "normal forms equal"
    if code_tree[0] == "?" or spec_tree[0] == "?":
        return "UNDECIDED", "not summarisable: %s" % (code_tree[1] if code_tree[0] == "?" else spec_tree[1],)
    fcs = [forwarder(t, debug) for t in code_levels]
    fss = [forwarder(t, debug) for t in spec_levels]
    any_pair = False
    for fc in fcs:
        if fc is None:
            continue
        for fs in fss:
            if fs is None:
                continue
            any_pair = True
            why = _distinct(fc, fs, debug)
            if why:
                return "VIOLATED", why
    if not any_pair:
        return "UNDECIDED", "normal forms differ but %s is not a pure forwarder at any unfolding level" % (
            "the code" if not any(fcs) else "the spec")
    return "UNDECIDED", "normal forms differ; no distinctness argument applies"


def _show_args(args):
    return "(" + ", ".join(nf.show_term(a) for a in args) + ")"


def _is_lossy_cast(t):
    return t[0] == "CAST" and t[1] == "IntToInt"


def _cast_source(t):
    while t[0] in ("CAST", "VF", "C", "F"):
        if t[0] == "CAST":
            t = t[2]
        elif t[0] == "C":
            if len(t[2]) != 1:
                break
            t = t[2][0]
        else:
            t = t[1]
    return t

"""Panic-effect analysis (DESIGN.md 2.2(c)): panic sites, message classes, reach sets with witnesses."""
import re

from . import cfg

PANIC_FNS = {
    "core::panicking::panic_fmt", "core::panicking::panic", "core::panicking::panic_display",
    "core::panicking::panic_explicit", "core::panicking::panic_str", "core::panicking::panic_nounwind",
    "core::panicking::unreachable_display", "core::panicking::assert_failed",
    "core::option::expect_failed", "core::option::unwrap_failed", "core::result::unwrap_failed",
    "std::rt::begin_panic", "std::rt::panic_fmt", "core::panicking::panic_const",
}
EXPECT_FNS = {
    "core::option::Option::<T>::expect": "expect",
    "core::option::Option::<T>::unwrap": "unwrap",
    "core::result::Result::<T, E>::expect": "expect",
    "core::result::Result::<T, E>::unwrap": "unwrap",
    "core::result::Result::<T, E>::expect_err": "expect",
    "core::result::Result::<T, E>::unwrap_err": "unwrap",
}

# message text -> class.  The texts are bnum's own (src/errors/macros.rs, src/int/strict.rs ...) and the
# std wording they copy; the table is part of the trusted base.
_CLASS_RULES = [
    (r"attempt to add with overflow", "overflow(add)"),
    (r"attempt to subtract with overflow", "overflow(sub)"),
    (r"attempt to multiply with overflow", "overflow(mul)"),
    (r"attempt to negate with overflow", "overflow(neg)"),
    (r"attempt to shift left with overflow", "overflow(shl)"),
    (r"attempt to shift right with overflow", "overflow(shr)"),
    (r"attempt to calculate power with overflow", "overflow(pow)"),
    (r"attempt to calculate absolute value with overflow", "overflow(abs)"),
    (r"attempt to calculate next power of two with overflow", "overflow(next_power_of_two)"),
    (r"attempt to calculate the next power of two", "overflow(next_power_of_two)"),
    (r"attempt to calculate next multiple of", "overflow(next_multiple_of)"),
    (r"attempt to divide by zero", "zero_divisor"),
    (r"attempt to calculate the remainder with a divisor of zero", "zero_divisor"),
    (r"attempt to divide with overflow", "div_overflow"),
    (r"attempt to calculate (the )?remainder with overflow", "rem_overflow"),
    (r"argument of integer logarithm must be positive", "log_nonpositive"),
    (r"base of integer logarithm must be at least 2", "log_base"),
    (r"Radix must be in range \[2, 36\]", "radix_range(36)"),
    (r"Radix must be in range \[2, 256\]", "radix_range(256)"),
    (r"[Rr]adix must be", "radix_range(?)"),
    (r"can't find zeroth root|zeroth root", "zeroth_root"),
    (r"imaginary", "imaginary_root"),
    (r"^assertion failed|assertion `", "internal_assert"),
    (r"internal error: entered unreachable code", "internal_assert"),
    (r"not yet implemented|not implemented", "unsupported"),
]
_CLASS_RULES = [(re.compile(p), c) for p, c in _CLASS_RULES]


def classify(msg):
    if msg is None:
        return "dynamic"
    for rx, c in _CLASS_RULES:
        if rx.search(msg):
            return c
    return "other(%s)" % msg


# classes that are part of the public panic contract (as opposed to developer assertions / unknown)
def is_contract_class(c):
    return not (c in ("internal_assert", "dynamic", "unsupported") or c.startswith("implicit:"))


def _callee_path(F, term):
    f = term["f"]
    if f[0] == "k" and "fn" in f[1]:
        return F.defs[f[1]["fn"]]["path"]
    return None


def _strs_of_operand(body, op, depth, seen):
    """Collect string constants in the backward slice of an operand (bounded, intraprocedural)."""
    out = []
    if op[0] == "k":
        k = op[1]
        if "str" in k:
            out.append(k["str"])
        elif "promoted" in k and k["promoted"] < len(body.get("promoted", [])):
            pb = body["promoted"][k["promoted"]]
            for bl in pb["blocks"]:
                for st in bl.get("st", []):
                    if st["s"] == "assign":
                        rv = st["rv"]
                        cands = [rv.get("a"), rv.get("b")] + list(rv.get("ops", []))
                        for o in cands:
                            if isinstance(o, list) and o and o[0] == "k" and "str" in o[1]:
                                out.append(o[1]["str"])
        return out
    if depth <= 0:
        return out
    local = op[1][0]
    if local in seen:
        return out
    seen.add(local)
    for bl in body["blocks"]:
        if "cleanup" in bl:
            continue
        for st in bl["st"]:
            if st["s"] == "assign" and st["p"][0] == local:
                rv = st["rv"]
                for key in ("a", "b"):
                    if key in rv and isinstance(rv[key], list):
                        out += _strs_of_operand(body, rv[key], depth - 1, seen)
                if "ops" in rv:
                    for o in rv["ops"]:
                        out += _strs_of_operand(body, o, depth - 1, seen)
                if "p" in rv and rv["r"] in ("ref", "rawptr"):
                    out += _strs_of_operand(body, ["c", rv["p"]], depth - 1, seen)
        t = bl["term"]
        if t["t"] == "call" and t["dest"][0] == local:
            for a in t["args"]:
                out += _strs_of_operand(body, a, depth - 1, seen)
    return out


def _promoted_strs(F, def_idx, op):
    return []


class Site:
    __slots__ = ("def_idx", "bb", "kind", "msg", "cls", "loc")

    def __init__(self, def_idx, bb, kind, msg, cls, loc):
        self.def_idx, self.bb, self.kind, self.msg, self.cls, self.loc = def_idx, bb, kind, msg, cls, loc


class PanicAnalysis:
    def __init__(self, F):
        self.F = F
        self._sites = {}
        self._reach_blocks = {}
        self._reach = {}

    def reach_blocks(self, def_idx):
        r = self._reach_blocks.get(def_idx)
        if r is None:
            r = cfg.reachable(self.F.bodies[def_idx])
            self._reach_blocks[def_idx] = r
        return r

    def sites(self, def_idx):
        """Panic sites in the reachable blocks of one body."""
        s = self._sites.get(def_idx)
        if s is not None:
            return s
        F = self.F
        body = F.bodies[def_idx]
        s = []
        for bb in sorted(self.reach_blocks(def_idx)):
            bl = body["blocks"][bb]
            t = bl["term"]
            if t["t"] == "call":
                p = _callee_path(F, t)
                if p in PANIC_FNS:
                    strs = []
                    for a in t["args"]:
                        strs += _strs_of_operand(body, a, 6, set())
                    strs = [x for x in dict.fromkeys(strs) if x.strip()]
                    msg = strs[0] if len(strs) == 1 else (" | ".join(strs) if strs else None)
                    if len(strs) > 1:
                        # panic!("{}", CONST): pieces may add separators only; keep the longest
                        msg = max(strs, key=len)
                    s.append(Site(def_idx, bb, "explicit", msg, classify(msg), t["loc"]))
                elif p in EXPECT_FNS:
                    strs = []
                    for a in t["args"][1:]:
                        strs += _strs_of_operand(body, a, 6, set())
                    msg = strs[0] if strs else None
                    cls = classify(msg) if msg else "dynamic"
                    s.append(Site(def_idx, bb, EXPECT_FNS[p], msg, cls, t["loc"]))
            elif t["t"] == "assert":
                s.append(Site(def_idx, bb, "assert", None, "implicit:" + t["kind"], t["loc"]))
        self._sites[def_idx] = s
        return s

    def succ_instances(self, inst_idx):
        """Instances that may be entered from the reachable blocks of this instance."""
        F = self.F
        inst = F.instances[inst_idx]
        d = inst["d"]
        out = []
        if d in F.bodies:
            rb = self.reach_blocks(d)
            for bb, t in inst["c"]:
                if bb in rb and isinstance(t, int):
                    out.append((bb, t))
            for bb, t in inst["r"]:
                if bb in rb and isinstance(t, int):
                    out.append((bb, t))
        else:
            for bb, t in inst["c"] + inst["r"]:
                if isinstance(t, int):
                    out.append((bb, t))
        return out

    def reach(self, inst_idx):
        """class -> (site, chain of instance idxs from the root to the site's function).

        Explores every instance reachable from inst_idx through resolved calls, closure creation and
        fn-item values, with constant branches pruned per body."""
        r = self._reach.get(inst_idx)
        if r is not None:
            return r
        F = self.F
        parent = {inst_idx: None}
        order = [inst_idx]
        qi = 0
        while qi < len(order):
            n = order[qi]
            qi += 1
            for bb, t in self.succ_instances(n):
                if t not in parent:
                    parent[t] = n
                    order.append(t)
        res = {}
        for n in order:
            d = F.instances[n]["d"]
            if d not in F.bodies:
                continue
            for site in self.sites(d):
                key = site.cls
                if key not in res:
                    chain = []
                    m = n
                    while m is not None:
                        chain.append(m)
                        m = parent[m]
                    chain.reverse()
                    res[key] = (site, chain)
        self._reach[inst_idx] = (res, order)
        return self._reach[inst_idx]

    def reach_sites(self, inst_idx):
        """All (class, site function fid) pairs reachable, with a chain for each."""
        F = self.F
        res, order = self.reach(inst_idx)
        parent = None
        out = {}
        # recompute parents for chains
        parent = {inst_idx: None}
        q = [inst_idx]
        qi = 0
        while qi < len(q):
            n = q[qi]
            qi += 1
            for bb, t in self.succ_instances(n):
                if t not in parent:
                    parent[t] = n
                    q.append(t)
        for n in q:
            d = F.instances[n]["d"]
            if d not in F.bodies:
                continue
            for site in self.sites(d):
                key = (site.cls, F.fid(d))
                if key not in out:
                    chain = []
                    m = n
                    while m is not None:
                        chain.append(F.inst_label(m))
                        m = parent[m]
                    chain.reverse()
                    out[key] = (site, chain)
        return out

    def classes(self, inst_idx, contract_only=True):
        res, _ = self.reach(inst_idx)
        return {c for c in res if (is_contract_class(c) or not contract_only)}

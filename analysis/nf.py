"""Wrapper summaries / normal forms (DESIGN.md 2.2(a),(b)).

A *summary* of a function instance is a decision tree

    tree ::= ('IF', scrutinee-term, ((value, tree), ...), otherwise-tree)
           | ('RET', value-term, effects)        effects = tuple of ('store', target-term, value-term)
           |                                                         | ('call', call-term)
           | ('PANIC', class)
           | ('?', reason)

whose value terms are IF-free (control flow of inlined callees is distributed into the tree):

    term ::= ('P', i) | ('K', ty, v) | ('S', text) | ('AC', const-fid, generic-args) | ('CP', name)
           | ('ZST', ty) | ('FN', label) | ('CLOS', closure-fid, (captures...))
           | ('F', term, field) | ('VF', term, variant, idx) | ('D', term) | ('IX', term, term)
           | ('CAST', kind, term, from, to) | ('CT', adt, variant, (terms...)) | ('TU', (terms...))
           | ('AR', (terms...)) | ('RP', term, n)
           | ('C', label, (terms...)) | ('B', op, a, b) | ('U', op, a) | ('OUT', call-term, k)
           | ('?', reason)

References are elided (`&x`, `*x` and `x` are the same term); a store through a parameter pointer is an
effect.  Functions whose pruned CFG has a cycle, externals and unresolved trait calls are *terminals*
and stay as ('C', label, args).  Nothing is executed and no input is chosen: this is value numbering.
"""
from . import cfg, panics
from .facts import short

FULL = 1000           # "inline everything" budget
MAX_NODES = 4000      # per tree
MAX_DEPTH = 8         # inlining depth
MAX_PATHS = 600       # leaves per tree

COMMUTATIVE = {"Add", "Mul", "BitAnd", "BitOr", "BitXor", "Eq", "Ne", "AddUnchecked", "MulUnchecked", "AddChk", "MulChk"}
# `(a op b).0` of a checked primitive operation whose overflow flag feeds an `assert` (debug builds): the value is only
# produced when the operation does not overflow - the evaluator raises a panic outcome otherwise
WITH_OVERFLOW = {"AddWithOverflow": "AddChk", "SubWithOverflow": "SubChk", "MulWithOverflow": "MulChk"}


class GiveUp(Exception):
    pass


def tsize(t):
    if not isinstance(t, tuple):
        return 1
    return 1 + sum(tsize(x) for x in t)


def leaves(tree):
    if tree[0] == "IF":
        for _, sub in tree[2]:
            yield from leaves(sub)
        yield from leaves(tree[3])
    else:
        yield tree


def map_leaves(tree, fn):
    if tree[0] == "IF":
        arms = tuple((v, map_leaves(sub, fn)) for v, sub in tree[2])
        return mk_if(tree[1], arms, map_leaves(tree[3], fn))
    return fn(tree)


def mk_if(scrut, arms, otherwise):
    """Build an IF node, folding constant scrutinees and identical branches."""
    cv = const_value(scrut)
    if cv is not None:
        for v, sub in arms:
            if v == cv:
                return sub
        return otherwise
    subs = [s for _, s in arms] + [otherwise]
    if all(s == subs[0] for s in subs[1:]):
        return subs[0]
    return ("IF", scrut, tuple(arms), otherwise)


ENUM_DOMAINS = {
    "core::option::Option<": (0, 1),
    "core::result::Result<": (0, 1),
    "core::cmp::Ordering": (0, 1, 255),
}


def enum_domain(ty):
    for pre, dom in ENUM_DOMAINS.items():
        if ty.startswith(pre):
            return dom
    return None


def canon_if(scrut, arms, otherwise, domain):
    """IF over a scrutinee with a known finite domain, in canonical arm order."""
    if domain is None:
        return mk_if(scrut, tuple(sorted(arms, key=lambda a: a[0])), otherwise)
    m = dict(arms)
    full = [(v, m.get(v, otherwise)) for v in sorted(domain)]
    return mk_if(scrut, tuple(full[:-1]), full[-1][1])


def const_value(t):
    if t[0] == "K":
        return t[2]
    return None


def prune(tree, known=None):
    """Fold nested tests of a scrutinee whose value is already fixed by the enclosing path."""
    if tree[0] != "IF":
        return tree
    known = known or {}
    scrut = tree[1]
    if scrut in known:
        kv = known[scrut]
        if kv[0] == "eq":
            for v, sub in tree[2]:
                if v == kv[1]:
                    return prune(sub, known)
            return prune(tree[3], known)
        excluded = kv[1]
        arms = tuple((v, sub) for v, sub in tree[2] if v not in excluded)
    else:
        excluded = frozenset()
        arms = tree[2]
    new_arms = []
    for v, sub in arms:
        k2 = dict(known)
        k2[scrut] = ("eq", v)
        new_arms.append((v, prune(sub, k2)))
    k2 = dict(known)
    k2[scrut] = ("ne", excluded | frozenset(v for v, _ in arms))
    other = prune(tree[3], k2)
    if not new_arms:
        return other
    return mk_if(scrut, tuple(new_arms), other)


# ---------------------------------------------------------------- term simplification
def simp(t):
    k = t[0]
    if k == "F":
        base, name = t[1], t[2]
        if base[0] == "CT":
            fields = base[4] if len(base) > 4 else None
            if fields and name in fields and len(base[3]) == len(fields):
                return base[3][fields.index(name)]
            if isinstance(name, int) and name < len(base[3]):
                return base[3][name]
        if base[0] == "TU" and isinstance(name, int) and name < len(base[1]):
            return base[1][name]
        if base[0] == "B" and base[1] in WITH_OVERFLOW and name == 0:
            return simp(("B", WITH_OVERFLOW[base[1]], base[2], base[3]))
        if base[0] == "WITH":
            if base[2] == name:
                return base[3]
            return simp(("F", base[1], name))
        return t
    if k == "VF":
        base = t[1]
        if base[0] == "CT" and base[2] == t[2] and t[3] < len(base[3]):
            return base[3][t[3]]
        return t
    if k == "IX":
        base = t[1]
        if base[0] == "WIX" and base[2] == t[2]:
            return base[3]
        return t
    if k == "D":
        base = t[1]
        if base[0] == "CT" and base[5] is not None:
            return ("K", "discr", base[5] if base[1] != "Ordering" else {0: 255, 1: 0, 2: 1}[base[5]])
        return t
    if k == "B":
        op, a, b = t[1], t[2], t[3]
        if op in COMMUTATIVE and repr(b) < repr(a):
            return ("B", op, b, a)
        if a[0] == "K" and b[0] == "K" and a[1] == b[1]:
            r = _fold_bin(op, a, b)
            if r is not None:
                return r
        return t
    if k == "U":
        if t[1] == "Not" and t[2][0] == "K" and t[2][1] == "bool":
            return ("K", "bool", 1 - t[2][2])
        if t[1] == "Not" and t[2][0] == "U" and t[2][1] == "Not":
            return t[2][2]
        return t
    if k == "CAST":
        # IntToInt of a literal
        a = t[2]
        if a[0] == "K" and t[1] == "IntToInt":
            bits = _bits_of(t[4])
            if bits and isinstance(a[2], int):
                return ("K", t[4], a[2] & ((1 << bits) - 1))
        return t
    return t


def _bits_of(ty):
    return {"u8": 8, "u16": 16, "u32": 32, "u64": 64, "u128": 128, "usize": 64,
            "i8": 8, "i16": 16, "i32": 32, "i64": 64, "i128": 128, "isize": 64, "bool": 1}.get(ty)


def _fold_bin(op, a, b):
    x, y, ty = a[2], b[2], a[1]
    bits = _bits_of(ty)
    if bits is None or ty.startswith("i"):
        if op == "Eq":
            return ("K", "bool", int(x == y))
        if op == "Ne":
            return ("K", "bool", int(x != y))
        return None
    m = (1 << bits) - 1
    if op == "Eq":
        return ("K", "bool", int(x == y))
    if op == "Ne":
        return ("K", "bool", int(x != y))
    if op == "Lt":
        return ("K", "bool", int(x < y))
    if op == "Le":
        return ("K", "bool", int(x <= y))
    if op == "Gt":
        return ("K", "bool", int(x > y))
    if op == "Ge":
        return ("K", "bool", int(x >= y))
    if op == "Add":
        return ("K", ty, (x + y) & m)
    if op == "Sub":
        return ("K", ty, (x - y) & m)
    if op == "Mul":
        return ("K", ty, (x * y) & m)
    if op in ("AddChk", "SubChk", "MulChk"):
        r = x + y if op == "AddChk" else (x - y if op == "SubChk" else x * y)
        return ("K", ty, r) if 0 <= r <= m else None
    if op == "BitAnd":
        return ("K", ty, x & y)
    if op == "BitOr":
        return ("K", ty, x | y)
    if op == "BitXor":
        return ("K", ty, x ^ y)
    return None


def subst(t, params):
    """Substitute ('P', i) by params[i] in a term."""
    if not isinstance(t, tuple):
        return t
    if t and t[0] == "P":
        return params[t[1]] if t[1] < len(params) else t
    if t and t[0] in ("K", "S", "AC", "CP", "ZST", "FN"):
        return t
    new = tuple(subst(x, params) if isinstance(x, tuple) else x for x in t)
    if new == t:
        return t
    if new and isinstance(new[0], str) and new[0] in ("F", "VF", "D", "B", "U", "CAST"):
        return simp(new)
    return new


def subst_tree(tree, params):
    k = tree[0]
    if k == "IF":
        arms = tuple((v, subst_tree(s, params)) for v, s in tree[2])
        return mk_if(subst(tree[1], params), arms, subst_tree(tree[3], params))
    if k == "RET":
        eff = tuple((e[0],) + tuple(subst(x, params) for x in e[1:]) for e in tree[2])
        return ("RET", subst(tree[1], params), eff)
    return tree


# ---------------------------------------------------------------- evaluator
class Summarizer:
    def __init__(self, F, pan=None, inline=True, terminal_fids=None):
        self.F = F
        self.pan = pan or panics.PanicAnalysis(F)
        self.inline = inline
        self.terminal_fids = terminal_fids or set()
        self._sum = {}
        self._acyclic = {}
        self._stack = []
        self._taint = 1 << 30
        self.term_inst = {}     # terminal label -> instances it stands for (guard-sensitive panic reachability)

    # -- public
    def summary(self, inst_idx, budget=None):
        """Decision tree of an instance with callees inlined up to `budget` levels (None: fully); memoised."""
        if budget is None:
            budget = FULL if self.inline else 0
        key = (inst_idx, budget)
        r = self._sum.get(key)
        if r is not None:
            return r
        if inst_idx in self._stack:
            # recursion: the caller treats this callee as a terminal; every summary computed above the
            # re-entered frame depends on that choice and is not cached
            self._taint = min(self._taint, self._stack.index(inst_idx))
            return None
        depth_here = len(self._stack)
        self._stack.append(inst_idx)
        try:
            r = self._summarise(inst_idx, budget)
        except GiveUp as e:
            r = ("?", str(e))
        except RecursionError:
            r = ("?", "recursion")
        finally:
            self._stack.pop()
        if self._taint >= depth_here:
            # not tainted by a cycle through a frame below us (or we are that frame)
            self._sum[key] = r
            if self._taint == depth_here:
                self._taint = 1 << 30
        return r

    def is_wrapper(self, inst_idx, as_root=False):
        """An instance whose body we have and whose pruned CFG is acyclic."""
        F = self.F
        inst = F.instances[inst_idx]
        d = inst["d"]
        if d not in F.bodies or inst["k"] != "item":
            return False
        if not as_root and F.fid(d) in self.terminal_fids:
            return False
        a = self._acyclic.get(d)
        if a is None:
            a = cfg.is_acyclic(F.bodies[d])
            self._acyclic[d] = a
        return a

    def label(self, inst_idx):
        F = self.F
        inst = F.instances[inst_idx]
        d = inst["d"]
        f = F.fid(d)
        root = F.root_inst.get(d)
        if root is not None and F.instances[root]["a"] == inst["a"]:
            return f
        dd = F.defs[d]
        if inst["a"] and not (dd.get("local") is False and "self_ty" in dd and dd.get("trait") is not None and not _has_method_generics(dd)):
            return "%s::<%s>" % (f, ", ".join(short(a) for a in inst["a"]))
        return f

    # -- internals
    def _summarise(self, inst_idx, budget):
        F = self.F
        inst = F.instances[inst_idx]
        body = F.bodies[inst["d"]]
        ev = _Eval(self, inst_idx, body, budget)
        tree = prune(ev.run())
        return tree


def _has_method_generics(dd):
    return False


class _Eval:
    def __init__(self, S, inst_idx, body, budget=0):
        self.S = S
        self.budget = budget
        self.F = S.F
        self.inst_idx = inst_idx
        self.inst = S.F.instances[inst_idx]
        self.def_idx = self.inst["d"]
        self.body = body
        self.consts = cfg.const_locals(body)
        self.calls = S.F.calls_of(inst_idx)
        self.nodes = 0
        self.paths = 0
        self.site_by_bb = {s.bb: s for s in S.pan.sites(self.def_idx)} if self.def_idx in S.F.bodies else {}
        # generic parameter name -> instance argument (for associated constants of generic helpers)
        gn = S.F.defs[self.def_idx].get("generics") or []
        ia = self.inst["a"]
        self.gmap = {}
        if gn and len(gn) <= len(ia):
            for n_, a_ in zip(gn, ia):
                if short(a_) != n_:
                    self.gmap[n_] = short(a_)

    def run(self):
        env = {}
        for i in range(self.body["argc"]):
            env[i + 1] = ("P", i)
        self.seen = ()
        return self.block(0, env, {}, ())

    # ---- places / operands
    def read_place(self, place, env, mem):
        local, projs = place
        t = env.get(local)
        if t is None:
            t = ("?", "uninit:%d" % local)
        if t[0] == "MR":
            t = env.get(t[1], ("?", "uninit:%d" % t[1]))
            if t[0] == "MR":
                t = ("?", "mr-chain")
        variant = None
        for pr in projs:
            if pr == "*":
                if t in mem:
                    t = mem[t]
                continue
            if "f" in pr:
                if variant is not None:
                    t = simp(("VF", t, variant, pr["f"]))
                    variant = None
                else:
                    name = pr["n"]
                    if name is None or name.isdigit():
                        name = pr["f"]
                    t = simp(("F", t, name))
            elif "dc" in pr:
                variant = pr["dc"] if pr["dc"] is not None else pr["v"]
            elif "i" in pr:
                idx = env.get(pr["i"], ("?", "uninit"))
                t = ("IX", t, idx)
            elif "ci" in pr:
                t = ("IX", t, ("K", "usize", pr["ci"]) if not pr["end"] else ("K", "from_end", pr["ci"]))
            elif "oc" in pr or "ub" in pr:
                continue
            else:
                t = ("?", "proj")
        return t

    def operand(self, op, env, mem):
        k = op[0]
        if k in ("c", "m"):
            return self.read_place(op[1], env, mem)
        if k == "k":
            return self.constant(op[1])
        return ("?", "operand:" + k)

    def constant(self, c):
        F = self.F
        ty = short(c["ty"])
        if "fn" in c:
            return ("FN", F.fid(c["fn"]), tuple(short(a) for a in c.get("args", [])))
        if "str" in c:
            return ("S", c["str"])
        if "promoted" in c:
            pbs = self.body.get("promoted", [])
            if c["promoted"] < len(pbs):
                pb = pbs[c["promoted"]]
                sub = _Eval(self.S, self.inst_idx, pb, 0)
                sub.calls = {}
                tr = sub.run()
                if tr[0] == "RET":
                    return tr[1]
            return ("?", "promoted")
        if "cv" in c:
            return ("K", ty, c["cv"])
        if "uneval" in c:
            d = F.defs[c["uneval"]]
            return ("AC", F.fid(c["uneval"]), tuple(self._gsub(short(a)) for a in c.get("args", [])))
        if "param" in c:
            # a const parameter of a non-identity instance is the caller's argument (cast_from::<M, N>: callee N = caller M)
            g = self.gmap.get(c["param"])
            if g is None:
                return ("CP", c["param"])
            if g.isdigit():
                return ("K", ty, int(g))
            if g in ("true", "false"):
                return ("K", "bool", 1 if g == "true" else 0)
            if g.isidentifier():
                return ("CP", g)
            return ("?", "const-param:" + g)
        if "v" in c:
            return ("K", ty, c["v"])
        if "zst" in c:
            return ("ZST", ty)
        if "tyconst" in c:
            return ("CP", c["tyconst"])
        return ("?", "const:" + ty)

    def _gsub(self, a):
        if not self.gmap:
            return a
        import re as _re
        return _re.sub(r"\b([A-Z][A-Za-z0-9_]*)\b", lambda m: self.gmap.get(m.group(1), m.group(1)), a)

    def rvalue(self, rv, env, mem):
        r = rv["r"]
        if r == "use":
            return self.operand(rv["a"], env, mem)
        if r == "ref" or r == "rawptr":
            p = rv["p"]
            if rv.get("mut") and not p[1]:
                # &mut local: remember which local is borrowed
                return ("MR", p[0])
            if rv.get("mut") and p[1] == ["*"]:
                cur = env.get(p[0])
                if cur is not None and cur[0] == "MR":
                    return cur           # reborrow of a &mut local
            if rv.get("mut") and p[1] and p[1][0] != "*" and p[0] in env:
                # a mutable borrow of a PART of a local (`&mut out.digits`, `&mut buf[..]`): writes through it - by a callee
                # without a summary, or through a reference that callee returns (`split_at_mut`, `iter_mut`) - are not
                # tracked, so whatever is read from that local afterwards is unknown, not its old value
                val = self.read_place(p, env, mem)
                env[p[0]] = ("C", "?partly mutably borrowed local", ())
                return val
            return self.read_place(p, env, mem)
        if r == "cast":
            kind = rv["k"]
            if (kind.startswith("PointerCoercion") or kind == "PtrToPtr") and rv["a"][0] in ("c", "m") and not rv["a"][1][1]:
                raw0 = env.get(rv["a"][1][0])
                if raw0 is not None and raw0[0] == "MR":
                    # `&mut local` coerced to a slice / trait object / raw pointer is still a mutable borrow of that local:
                    # keep the borrow, so that a callee without a summary (or a reference it returns) invalidates the local
                    return raw0
            a = self.operand(rv["a"], env, mem)
            if kind.startswith("PointerCoercion") or kind in ("PtrToPtr", "Transmute") and short(rv["from"]) == short(rv["ty"]):
                if "Unsize" in kind:
                    return ("CAST", "Unsize", a, short(rv["from"]), short(rv["ty"]))
                return a
            return simp(("CAST", kind, a, short(rv["from"]), short(rv["ty"])))
        if r == "bin":
            a = self.operand(rv["a"], env, mem)
            b = self.operand(rv["b"], env, mem)
            return simp(("B", rv["op"], a, b))
        if r == "un":
            a = self.operand(rv["a"], env, mem)
            if rv["op"] == "PtrMetadata":
                return ("U", "Len", a)
            return simp(("U", rv["op"], a))
        if r == "discr":
            return simp(("D", self.read_place(rv["p"], env, mem), self._enum_domain(rv["p"])))
        if r == "agg":
            ops = tuple(self.operand(o, env, mem) for o in rv["ops"])
            k = rv["k"]
            if k == "tuple":
                return ("TU", ops)
            if k == "array":
                return ("AR", ops)
            if k == "adt":
                return ("CT", rv["adt"], rv["variant"], ops, tuple(rv.get("fields", ())), rv.get("vi"))
            if k == "closure":
                return ("CLOS", self.F.fid(rv["def"]), ops)
            return ("?", "agg:" + k)
        if r == "repeat":
            return ("RP", self.operand(rv["a"], env, mem), short(rv["n"]))
        return ("?", "rvalue:" + r)

    def _enum_domain(self, place):
        if place[1]:
            return None
        return enum_domain(self.body["locals"][place[0]])

    def write_place(self, place, val, env, mem, effects):
        local, projs = place
        if not projs:
            env[local] = val
            return effects
        cur = env.get(local)
        if projs[0] == "*" and cur is not None:
            if cur[0] == "MR":
                # write through &mut local
                return self.write_place([cur[1], projs[1:]], val, env, mem, effects)
            if len(projs) == 1:
                mem[cur] = val
                return effects + (("store", cur, val),)
            # store to a field behind a pointer
            old = mem.get(cur, cur)
            new = self._with(old, projs[1:], val, env)
            mem[cur] = new
            return effects + (("store", cur, new),)
        old = cur if cur is not None else ("?", "uninit:%d" % local)
        if old[0] == "MR":
            old = ("?", "mr")
        env[local] = self._with(old, projs, val, env)
        return effects

    def _with(self, old, projs, val, env=None):
        pr = projs[0]
        if isinstance(pr, dict) and "f" in pr:
            name = pr["n"]
            if name is None or name.isdigit():
                name = pr["f"]
            if len(projs) == 1:
                return ("WITH", old, name, val)
            inner = self._with(simp(("F", old, name)), projs[1:], val, env)
            if inner[0] == "?":
                return inner
            return ("WITH", old, name, inner)
        if isinstance(pr, dict) and "i" in pr and len(projs) == 1 and env is not None:
            idx = env.get(pr["i"], ("?", "uninit"))
            return ("WIX", old, idx, val)
        if isinstance(pr, dict) and "ci" in pr and len(projs) == 1 and not pr["end"]:
            return ("WIX", old, ("K", "usize", pr["ci"]), val)
        return ("?", "partial-store")

    # ---- control flow
    def block(self, bb, env, mem, effects):
        # loop-prefix summaries: the first re-entry of a block on the current path ends the path with a LOOP leaf
        if bb in self.seen:
            self.paths += 1
            if self.paths > MAX_PATHS:
                raise GiveUp("too-many-paths")
            return ("?", "loop@bb%d" % bb)
        saved = self.seen
        self.seen = saved + (bb,)
        try:
            return self._block(bb, env, mem, effects)
        finally:
            self.seen = saved

    def _block(self, bb, env, mem, effects):
        self.nodes += 1
        if self.nodes > MAX_NODES:
            raise GiveUp("too-large")
        bl = self.body["blocks"][bb]
        if "cleanup" in bl:
            return ("?", "cleanup")
        for st in bl["st"]:
            if st["s"] == "assign":
                val = self.rvalue(st["rv"], env, mem)
                effects = self.write_place(st["p"], val, env, mem, effects)
            elif st["s"] == "setdiscr":
                env[st["p"][0]] = ("?", "setdiscr")
        t = bl["term"]
        k = t["t"]
        if k == "goto":
            return self.block(t["to"], env, mem, effects)
        if k == "drop":
            return self.block(t["to"], env, mem, effects)
        if k == "return":
            self.paths += 1
            if self.paths > MAX_PATHS:
                raise GiveUp("too-many-paths")
            v = env.get(0, ("ZST", "()"))
            if v[0] == "MR":
                v = ("?", "ret-mr")
            return ("RET", v, effects)
        if k == "unreachable":
            return ("?", "unreachable")
        if k == "assert":
            # implicit panic edges (overflow / bounds checks) are not part of any verdict
            return self.block(t["to"], env, mem, effects)
        if k == "switch":
            cv = cfg.switch_const(t, self.consts)
            scrut = self.operand(t["d"], env, mem)
            if cv is None:
                cv = const_value(scrut)
            if cv is not None:
                for v, tgt in t["vals"]:
                    if v == cv:
                        return self.block(tgt, env, mem, effects)
                return self.block(t["otherwise"], env, mem, effects)
            arms = []
            for v, tgt in t["vals"]:
                arms.append((v & 0xFF if t["dty"] in ("i8", "isize") and v > (1 << 60) or t["dty"] == "i8" else v,
                             self.block(tgt, dict(env), dict(mem), effects)))
            other = self.block(t["otherwise"], dict(env), dict(mem), effects)
            domain = None
            if t["dty"] == "bool":
                domain = (0, 1)
            elif scrut[0] == "D":
                domain = scrut[2]
            return canon_if(scrut, arms, other, domain)
        if k == "call":
            return self.call(bb, t, env, mem, effects)
        return ("?", "term:" + k)

    def call(self, bb, t, env, mem, effects):
        S = self.S
        F = self.F
        site = self.site_by_bb.get(bb)
        if site is not None and site.kind == "explicit":
            self.paths += 1
            return ("PANIC", site.cls)
        # argument terms and mutable-borrow bookkeeping
        args = []
        mut_targets = []
        for a in t["args"]:
            mt = None
            if a[0] in ("c", "m") and not a[1][1]:
                raw = env.get(a[1][0])
                if raw is not None and raw[0] == "MR":
                    mt = ("local", raw[1])
                elif self.body["locals"][a[1][0]].startswith("&mut "):
                    mt = ("term", self.read_place(a[1], env, mem))
            args.append(self.operand(a, env, mem))
            mut_targets.append(mt)
        args = tuple(args)
        target = self.calls.get(bb)
        dest = t["dest"]
        nxt = t["to"]

        if target is None:
            f = self.operand(t["f"], env, mem)
            lab = f[1] if f[0] == "FN" else "indirect"
            return self._after_terminal(("C", lab, args), mut_targets, dest, nxt, env, mem, effects)

        tinst = F.instances[target]
        if self.budget > 0 and len(S._stack) < 60 and S.is_wrapper(target):
            sub = S.summary(target, self.budget - 1 if self.budget < FULL else FULL)
            if sub is not None and sub[0] != "?" and _inlinable(sub):
                sub = subst_tree(sub, args)

                def cont(leaf):
                    if leaf[0] == "PANIC" or leaf[0] == "?":
                        return leaf
                    e2 = dict(env)
                    m2 = dict(mem)
                    eff2 = effects
                    for e in leaf[2]:
                        if e[0] == "store":
                            tgt, val = e[1], e[2]
                            placed = False
                            for k2, mt in enumerate(mut_targets):
                                if mt is not None and args[k2] == tgt and mt[0] == "local":
                                    e2[mt[1]] = val
                                    placed = True
                                    break
                            if not placed:
                                m2[tgt] = val
                                eff2 = eff2 + (("store", tgt, val),)
                        else:
                            eff2 = eff2 + (e,)
                    if nxt is None:
                        return ("?", "diverging-wrapper")
                    eff2 = self.write_place(dest, leaf[1], e2, m2, eff2)
                    return self.block(nxt, e2, m2, eff2)

                return map_leaves(sub, cont)
        lab = S.label(target)
        if tinst["k"] == "unresolved":
            lab = "?" + lab
        else:
            S.term_inst.setdefault(lab, set()).add(target)
        return self._after_terminal(("C", lab, args), mut_targets, dest, nxt, env, mem, effects)

    def _after_terminal(self, cterm, mut_targets, dest, nxt, env, mem, effects):
        impure = False
        for k2, mt in enumerate(mut_targets):
            if mt is None:
                continue
            impure = True
            out = ("OUT", cterm, k2)
            if mt[0] == "local":
                env[mt[1]] = out
            else:
                mem[mt[1]] = out
                effects = effects + (("store", mt[1], out),)
        if nxt is None:
            self.paths += 1
            return ("PANIC", "diverges:" + cterm[1])
        effects = self.write_place(dest, cterm, env, mem, effects)
        return self.block(nxt, env, mem, effects)


INLINE_MAX_LEAVES = 12
INLINE_MAX_SIZE = 700


def _inlinable(tree):
    n = 0
    for _ in leaves(tree):
        n += 1
        if n > INLINE_MAX_LEAVES:
            return False
    return tsize(tree) <= INLINE_MAX_SIZE


# ---------------------------------------------------------------- pretty printing
def show_term(t, depth=0):
    if not isinstance(t, tuple):
        return str(t)
    k = t[0]
    if k == "P":
        return "p%d" % t[1]
    if k == "K":
        return "%s:%s" % (t[2], t[1])
    if k == "S":
        return repr(t[1])
    if k == "AC":
        return t[1]
    if k == "CP":
        return t[1]
    if k == "ZST":
        return "()" if t[1] == "()" else "zst<%s>" % t[1]
    if k == "FN":
        return "fn " + t[1]
    if k == "F":
        return "%s.%s" % (show_term(t[1]), t[2])
    if k == "VF":
        return "(%s as %s).%s" % (show_term(t[1]), t[2], t[3])
    if k == "D":
        return "discr(%s)" % show_term(t[1])
    if k == "C":
        return "%s(%s)" % (t[1], ", ".join(show_term(a) for a in t[2]))
    if k == "B":
        return "(%s %s %s)" % (show_term(t[2]), t[1], show_term(t[3]))
    if k == "U":
        return "%s(%s)" % (t[1], show_term(t[2]))
    if k == "CAST":
        return "(%s as %s)" % (show_term(t[2]), t[4])
    if k == "CT":
        return "%s::%s(%s)" % (t[1], t[2], ", ".join(show_term(a) for a in t[3]))
    if k == "TU":
        return "(%s)" % ", ".join(show_term(a) for a in t[1])
    if k == "AR":
        return "[%s]" % ", ".join(show_term(a) for a in t[1])
    if k == "RP":
        return "[%s; %s]" % (show_term(t[1]), t[2])
    if k == "OUT":
        return "out%d{%s}" % (t[2], show_term(t[1]))
    if k == "CLOS":
        return "closure %s" % t[1]
    if k == "IX":
        return "%s[%s]" % (show_term(t[1]), show_term(t[2]))
    if k == "WITH":
        return "%s{.%s=%s}" % (show_term(t[1]), t[2], show_term(t[3]))
    if k == "WIX":
        return "%s{[%s]=%s}" % (show_term(t[1]), show_term(t[2]), show_term(t[3]))
    if k == "?":
        return "?%s" % (t[1],)
    return repr(t)


def show_tree(tree, indent=0):
    pad = "  " * indent
    k = tree[0]
    if k == "IF":
        out = [pad + "match %s:" % show_term(tree[1])]
        for v, sub in tree[2]:
            out.append(pad + " %s =>" % v)
            out.append(show_tree(sub, indent + 2))
        out.append(pad + " _ =>")
        out.append(show_tree(tree[3], indent + 2))
        return "\n".join(out)
    if k == "RET":
        eff = "".join("; %s" % _show_eff(e) for e in tree[2])
        return pad + "return %s%s" % (show_term(tree[1]), eff)
    if k == "PANIC":
        return pad + "panic[%s]" % tree[1]
    return pad + "?%s" % (tree[1],)


def _show_eff(e):
    if e[0] == "store":
        return "*%s := %s" % (show_term(e[1]), show_term(e[2]))
    return "effect %s" % show_term(e[1])

"""Audited (root, class, site) triples for the may-analysis half of the panic-effect rules (DESIGN 2.7, 6a)."""
import json
import os
import re

VERIF = os.path.dirname(os.path.dirname(os.path.abspath(__file__)))


class Audit:
    def __init__(self, path=None):
        path = path or os.path.join(VERIF, "spec", "panic_audit.json")
        self.entries = []
        if os.path.exists(path):
            for e in json.load(open(path))["entries"]:
                self.entries.append((re.compile(e["root"]), e["class"], re.compile(e["site"]), e))
        self.used = set()

    _NT = re.compile(r"^<(B(?:Uint|Int)(?:D8|D16|D32)?<N>) as num_traits::[\w:]+>::(\w+)$")

    def lookup(self, root_fid, cls, site_fid):
        # a num-traits entry point of the same name shares the audited argument of the inherent method (it forwards to
        # it - C18's F/G rows; a body that reaches a different site is not covered by the entry)
        m = self._NT.match(root_fid)
        alias = "%s::%s" % (m.group(1), m.group(2)) if m else None
        for i, (rr, c, sr, e) in enumerate(self.entries):
            if c == cls and (rr.search(root_fid) or (alias and rr.search(alias))) and sr.search(site_fid):
                self.used.add(i)
                return e
        return None


    def entries_for(self, root_fid, cls):
        """audit entries whose root and class match (site not yet compared)"""
        m = self._NT.match(root_fid)
        alias = "%s::%s" % (m.group(1), m.group(2)) if m else None
        return [(i, sr, e) for i, (rr, c, sr, e) in enumerate(self.entries)
                if c == cls and (rr.search(root_fid) or (alias and rr.search(alias)))]


_default = None


def default():
    global _default
    if _default is None:
        _default = Audit()
    return _default

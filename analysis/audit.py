"""Audited (root, class, site) triples for the may-analysis half of the panic-effect rules (DESIGN 2.7, 6a)."""
import json
import os
import re

VERIF = os.path.dirname(os.path.dirname(os.path.abspath(__file__)))


class Audit:
    def __init__(self, path=None):
        path = path or os.path.join(VERIF, "spec", "panic_audit.json")
        self.entries = []
        if os.path.exists(path):
            for e in json.load(open(path))["entries"]:
                self.entries.append((re.compile(e["root"]), e["class"], re.compile(e["site"]), e))
        self.used = set()

    def lookup(self, root_fid, cls, site_fid):
        for i, (rr, c, sr, e) in enumerate(self.entries):
            if c == cls and rr.search(root_fid) and sr.search(site_fid):
                self.used.add(i)
                return e
        return None


_default = None


def default():
    global _default
    if _default is None:
        _default = Audit()
    return _default

"""Run the bnum-facts driver on /repo for one configuration, with a content-addressed cache.

Every call inspects /repo's *current* working tree: the cache key is the sha256 of every
file under /repo/src plus Cargo.toml/Cargo.lock, the configuration id and the driver
binary, so any edit to /repo is a different key and triggers a fresh compiler run.
"""
import fcntl
import hashlib
import json
import os
import shutil
import subprocess
import sys
import time

VERIF = os.path.dirname(os.path.dirname(os.path.abspath(__file__)))
REPO = os.environ.get("VERIF_REPO", "/repo")
CACHE = os.environ.get("VERIF_CACHE_DIR") or os.path.join(VERIF, ".cache")
DRIVER_DIR = os.path.join(VERIF, "driver")
DRIVER_TARGET = os.path.join(VERIF, ".cache", "driver-target")
DRIVER_BIN = os.path.join(DRIVER_TARGET, "debug", "bnum-facts")

# configuration matrix (DESIGN.md 2.1)
CONFIGS = {
    "Kd": dict(debug=True, features="numtraits,rand"),
    "Kr": dict(debug=False, features="numtraits,rand"),
    "Kd0": dict(debug=True, features=""),
    "Kr0": dict(debug=False, features=""),
    "Kdn": dict(debug=True, features="nightly,numtraits,rand"),
    "Krn": dict(debug=False, features="nightly,numtraits,rand"),
}

# measured on the pinned tree; a run producing fewer bodies fails closed
BODY_FLOOR = {"Kd": 5000, "Kr": 5000, "Kd0": 3500, "Kr0": 3500, "Kdn": 5000, "Krn": 5000}


def _env():
    env = dict(os.environ)
    env["CARGO_NET_OFFLINE"] = "true"
    sysroot = subprocess.check_output(["rustc", "+nightly", "--print", "sysroot"], text=True).strip()
    env["LD_LIBRARY_PATH"] = sysroot + "/lib" + (":" + env["LD_LIBRARY_PATH"] if env.get("LD_LIBRARY_PATH") else "")
    return env


def ensure_driver():
    os.makedirs(CACHE, exist_ok=True)
    src_m = max(os.path.getmtime(os.path.join(DRIVER_DIR, "src", "main.rs")),
                os.path.getmtime(os.path.join(DRIVER_DIR, "Cargo.toml")))
    if os.path.exists(DRIVER_BIN) and os.path.getmtime(DRIVER_BIN) >= src_m:
        return DRIVER_BIN
    with open(os.path.join(CACHE, "driver.lock"), "w") as lk:
        fcntl.flock(lk, fcntl.LOCK_EX)
        if os.path.exists(DRIVER_BIN) and os.path.getmtime(DRIVER_BIN) >= src_m:
            return DRIVER_BIN
        env = _env()
        env["CARGO_TARGET_DIR"] = DRIVER_TARGET
        r = subprocess.run(["cargo", "+nightly", "build", "--offline"], cwd=DRIVER_DIR, env=env,
                           stdout=subprocess.PIPE, stderr=subprocess.STDOUT, text=True)
        if r.returncode != 0 or not os.path.exists(DRIVER_BIN):
            sys.stderr.write(r.stdout)
            raise RuntimeError("driver build failed")
    return DRIVER_BIN


def tree_hash(repo=None):
    repo = repo or REPO
    h = hashlib.sha256()
    files = []
    for root, dirs, fs in os.walk(os.path.join(repo, "src")):
        dirs.sort()
        for f in sorted(fs):
            files.append(os.path.join(root, f))
    for f in ("Cargo.toml", "Cargo.lock"):
        p = os.path.join(repo, f)
        if os.path.exists(p):
            files.append(p)
    for p in files:
        h.update(os.path.relpath(p, repo).encode())
        h.update(b"\0")
        with open(p, "rb") as fh:
            h.update(fh.read())
        h.update(b"\0")
    return h.hexdigest()


def _file_hash(p):
    h = hashlib.sha256()
    with open(p, "rb") as fh:
        h.update(fh.read())
    return h.hexdigest()


def facts_path(config, repo=None, crate="bnum"):
    """Return the path of an up-to-date fact file for `config`, running the driver if needed."""
    repo = repo or REPO
    cfg = CONFIGS[config]
    drv = ensure_driver()
    key = hashlib.sha256((tree_hash(repo) + config + _file_hash(drv) + crate).encode()).hexdigest()[:24]
    fdir = os.path.join(CACHE, "facts")
    os.makedirs(fdir, exist_ok=True)
    out = os.path.join(fdir, "%s-%s.json" % (config, key))
    if os.path.exists(out) and not os.environ.get("VERIF_NO_CACHE"):
        return out
    with open(os.path.join(CACHE, "facts-%s.lock" % config), "w") as lk:
        fcntl.flock(lk, fcntl.LOCK_EX)
        if os.path.exists(out) and not os.environ.get("VERIF_NO_CACHE"):
            return out
        t0 = time.time()
        target = os.path.join(CACHE, "target-%s" % config)
        # anti-staleness: cargo must re-run the wrapper on the member crate
        for prof in ("debug",):
            fp = os.path.join(target, prof, ".fingerprint")
            if os.path.isdir(fp):
                for d in os.listdir(fp):
                    if d.startswith(crate + "-"):
                        shutil.rmtree(os.path.join(fp, d), ignore_errors=True)
        env = _env()
        flags = "-Zmir-opt-level=0 -Awarnings"
        if not cfg["debug"]:
            flags += " -Cdebug-assertions=off -Coverflow-checks=off"
        env["RUSTFLAGS"] = flags
        env["RUSTC_WORKSPACE_WRAPPER"] = drv
        env["CARGO_TARGET_DIR"] = target
        tmp_out = out + ".%d.part" % os.getpid()
        env["BNUM_FACTS_OUT"] = tmp_out
        env["BNUM_FACTS_CONFIG"] = config
        env["BNUM_FACTS_CRATE"] = crate
        cmd = ["cargo", "+nightly", "check", "--offline", "--lib"]
        if cfg["features"]:
            cmd += ["--features", cfg["features"]]
        r = subprocess.run(cmd, cwd=repo, env=env, stdout=subprocess.PIPE, stderr=subprocess.STDOUT, text=True)
        if r.returncode != 0:
            sys.stderr.write(r.stdout[-4000:])
            raise BuildFailed("cargo check failed for config %s (the tree does not compile)" % config)
        if not os.path.exists(tmp_out) or os.path.getmtime(tmp_out) < t0 - 1:
            raise RuntimeError("driver produced no fact file for %s (stale cargo cache?)" % config)
        os.replace(tmp_out, out)
        _prune(fdir, config)
    return out


class BuildFailed(RuntimeError):
    pass


def _prune(fdir, config, keep=4):
    fs = sorted((f for f in os.listdir(fdir) if f.startswith(config + "-") and f.endswith(".json")),
                key=lambda f: os.path.getmtime(os.path.join(fdir, f)))
    for f in fs[:-keep]:
        try:
            os.remove(os.path.join(fdir, f))
        except OSError:
            pass


def _canonical_generic_names(text):
    """The rules name the ADTs' const generic parameters N (and M for the second one).  If the crate renames
    them consistently (a behaviour-preserving edit), rename them back textually before parsing."""
    import re
    import collections
    first = collections.Counter(re.findall(r'"self_ty": "(?:[a-z_0-9]+::)*B(?:Uint|Int)(?:D8|D16|D32)?<([A-Za-z_][A-Za-z_0-9]*)>"', text))
    if not first:
        return text
    n = first.most_common(1)[0][0]
    second = collections.Counter(x for x in re.findall(r'cast::CastFrom<(?:[a-z_0-9]+::)*B(?:Uint|Int)(?:D8|D16|D32)?<([A-Za-z_][A-Za-z_0-9]*)>>', text) if x != n)
    m = second.most_common(1)[0][0] if second else "M"
    if n == "N" and m == "M":
        return text
    tmp = "\x00GENERIC_N\x00"
    if n != "N":
        text = re.sub(r"\b%s\b" % re.escape(n), tmp, text)
    if m != "M":
        text = re.sub(r"\b%s\b" % re.escape(m), "M", text)
    return text.replace(tmp, "N")


def load(config, repo=None):
    p = facts_path(config, repo)
    with open(p) as fh:
        text = fh.read()
    text = _canonical_generic_names(text)
    data = json.loads(text)
    nb = len(data["bodies"])
    if repo is None and nb < BODY_FLOOR[config]:
        raise RuntimeError("fact file for %s has %d bodies, below floor %d" % (config, nb, BODY_FLOOR[config]))
    data["_path"] = p
    return data


if __name__ == "__main__":
    for c in sys.argv[1:] or ["Kd", "Kr"]:
        t = time.time()
        p = facts_path(c)
        print(c, p, "%.1fs" % (time.time() - t))

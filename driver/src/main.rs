// bnum-facts: rustc_private driver that serialises the type-checked program
// (MIR bodies, resolved callees, instance call graph, impls, ADTs) of one crate
// to a JSON fact file.  Injected with RUSTC_WORKSPACE_WRAPPER under
// `cargo +nightly check`; see /verif/DESIGN.md section 2.1.
#![feature(rustc_private)]
#![allow(rustc::internal)]

extern crate rustc_abi;
extern crate rustc_driver;
extern crate rustc_hir;
extern crate rustc_interface;
extern crate rustc_middle;
extern crate rustc_span;

use std::collections::HashMap;
use std::fmt::Write as _;

use rustc_driver::{Callbacks, Compilation};
use rustc_hir::def::DefKind;
use rustc_hir::def_id::{DefId, LOCAL_CRATE};
use rustc_interface::interface::Compiler;
use rustc_middle::mir::{
    self, AggregateKind, BasicBlockData, Body, Const as MirConst, ConstValue, Operand, Place,
    ProjectionElem, Rvalue, StatementKind, TerminatorKind,
};
use rustc_middle::ty::print::with_no_trimmed_paths;
use rustc_middle::ty::{self, EarlyBinder, GenericArgsRef, Instance, InstanceKind, Ty, TyCtxt, TypingEnv};

// ---------------------------------------------------------------- JSON
enum J {
    Null,
    Bool(bool),
    Int(i128),
    UInt(u128),
    Str(String),
    Arr(Vec<J>),
    Obj(Vec<(&'static str, J)>),
}

fn s<T: Into<String>>(x: T) -> J {
    J::Str(x.into())
}

fn esc(out: &mut String, x: &str) {
    out.push('"');
    for c in x.chars() {
        match c {
            '"' => out.push_str("\\\""),
            '\\' => out.push_str("\\\\"),
            '\n' => out.push_str("\\n"),
            '\r' => out.push_str("\\r"),
            '\t' => out.push_str("\\t"),
            c if (c as u32) < 0x20 => {
                let _ = write!(out, "\\u{:04x}", c as u32);
            }
            c => out.push(c),
        }
    }
    out.push('"');
}

impl J {
    fn write(&self, out: &mut String) {
        match self {
            J::Null => out.push_str("null"),
            J::Bool(b) => out.push_str(if *b { "true" } else { "false" }),
            J::Int(i) => {
                let _ = write!(out, "{}", i);
            }
            J::UInt(i) => {
                let _ = write!(out, "{}", i);
            }
            J::Str(x) => esc(out, x),
            J::Arr(v) => {
                out.push('[');
                for (i, x) in v.iter().enumerate() {
                    if i > 0 {
                        out.push(',');
                    }
                    x.write(out);
                }
                out.push(']');
            }
            J::Obj(v) => {
                out.push('{');
                for (i, (k, x)) in v.iter().enumerate() {
                    if i > 0 {
                        out.push(',');
                    }
                    esc(out, k);
                    out.push(':');
                    x.write(out);
                }
                out.push('}');
            }
        }
    }
}

// ---------------------------------------------------------------- context
struct Cx<'tcx> {
    tcx: TyCtxt<'tcx>,
    // def table
    def_ix: HashMap<DefId, usize>,
    defs: Vec<DefId>,
    // instance table
    inst_ix: HashMap<(DefId, GenericArgsRef<'tcx>, u8), usize>,
    insts: Vec<InstRec<'tcx>>,
    work: Vec<usize>,
}

struct InstRec<'tcx> {
    def: DefId,
    args: GenericArgsRef<'tcx>,
    kind: &'static str, // item | intrinsic | shim:<x> | unresolved | virtual
    env: TypingEnv<'tcx>,
    calls: Vec<(usize, J)>,   // (bb, target)
    fnrefs: Vec<(usize, J)>,  // (bb, fn item / closure referenced as a value)
    has_body: bool,
}

fn ty_s<'tcx>(t: Ty<'tcx>) -> String {
    with_no_trimmed_paths!(t.to_string())
}

impl<'tcx> Cx<'tcx> {
    fn path(&self, d: DefId) -> String {
        with_no_trimmed_paths!(self.tcx.def_path_str(d))
    }

    fn def(&mut self, d: DefId) -> usize {
        if let Some(&i) = self.def_ix.get(&d) {
            return i;
        }
        let i = self.defs.len();
        self.defs.push(d);
        self.def_ix.insert(d, i);
        i
    }

    fn args_j(&self, args: GenericArgsRef<'tcx>) -> J {
        J::Arr(
            args.iter()
                .filter(|a| a.as_region().is_none())
                .map(|a| s(with_no_trimmed_paths!(a.to_string())))
                .collect(),
        )
    }

    // peel references; return (adt-or-prim name, number of refs peeled)
    fn head_of_ty(&self, mut t: Ty<'tcx>) -> (String, usize) {
        let mut n = 0;
        loop {
            match t.kind() {
                ty::Ref(_, inner, _) => {
                    t = *inner;
                    n += 1;
                }
                _ => break,
            }
        }
        let h = match t.kind() {
            ty::Adt(adt, _) => self.tcx.item_name(adt.did()).to_string(),
            ty::Param(p) => format!("param:{}", p.name),
            _ => ty_s(t),
        };
        (h, n)
    }

    fn def_json(&self, d: DefId) -> J {
        let tcx = self.tcx;
        let kind = tcx.def_kind(d);
        let mut o: Vec<(&'static str, J)> = vec![
            ("path", s(self.path(d))),
            ("kind", s(format!("{:?}", kind))),
            ("local", J::Bool(d.is_local())),
            ("krate", s(tcx.crate_name(d.krate).to_string())),
        ];
        let name = match kind {
            DefKind::Closure | DefKind::InlineConst | DefKind::AnonConst | DefKind::Impl { .. } => None,
            _ => tcx.opt_item_name(d).map(|x| x.to_string()),
        };
        o.push(("name", name.map(s).unwrap_or(J::Null)));
        // container
        let mut cur = d;
        // closures: climb to the enclosing fn for the container info
        let mut closure_depth = 0;
        while matches!(tcx.def_kind(cur), DefKind::Closure | DefKind::InlineConst) {
            cur = tcx.parent(cur);
            closure_depth += 1;
        }
        if closure_depth > 0 {
            o.push(("closure_of", s(self.path(cur))));
            o.push((
                "closure_of_name",
                tcx.opt_item_name(cur).map(|x| s(x.to_string())).unwrap_or(J::Null),
            ));
        }
        if matches!(tcx.def_kind(cur), DefKind::AssocFn | DefKind::AssocConst { .. } | DefKind::AssocTy) {
            let parent = tcx.parent(cur);
            match tcx.def_kind(parent) {
                DefKind::Impl { of_trait } => {
                    let self_ty = tcx.type_of(parent).instantiate_identity().skip_norm_wip();
                    let (head, refs) = self.head_of_ty(self_ty);
                    o.push(("self_ty", s(ty_s(self_ty))));
                    o.push(("self_head", s(head)));
                    o.push(("self_refs", J::Int(refs as i128)));
                    if of_trait {
                        let tr = tcx.impl_trait_ref(parent).instantiate_identity().skip_norm_wip();
                        o.push(("trait", s(self.path(tr.def_id))));
                        o.push((
                            "trait_args",
                            J::Arr(
                                tr.args
                                    .iter()
                                    .skip(1)
                                    .filter(|a| a.as_region().is_none())
                                    .map(|a| s(with_no_trimmed_paths!(a.to_string())))
                                    .collect(),
                            ),
                        ));
                    } else {
                        o.push(("trait", J::Null));
                    }
                    let auto = tcx.is_automatically_derived(parent);
                    o.push(("derived", J::Bool(auto)));
                }
                DefKind::Trait => {
                    o.push(("trait_decl", s(self.path(parent))));
                }
                _ => {}
            }
        }
        if matches!(kind, DefKind::Fn | DefKind::AssocFn | DefKind::Closure) {
            // generic parameter names in substitution order (parents first)
            let mut names: Vec<J> = Vec::new();
            let mut chain = vec![tcx.generics_of(d)];
            while let Some(p) = chain.last().unwrap().parent {
                chain.push(tcx.generics_of(p));
            }
            for g in chain.iter().rev() {
                for p in &g.own_params {
                    if !matches!(p.kind, ty::GenericParamDefKind::Lifetime) {
                        names.push(s(p.name.to_string()));
                    }
                }
            }
            o.push(("generics", J::Arr(names)));
        }
        if matches!(kind, DefKind::Fn | DefKind::AssocFn) {
            let vis = tcx.visibility(d);
            o.push(("public", J::Bool(vis.is_public())));
            o.push(("const", J::Bool(tcx.is_const_fn(d))));
            let sig = tcx.fn_sig(d).instantiate_identity().skip_norm_wip();
            o.push(("unsafe", J::Bool(sig.safety().is_unsafe())));
        }
        if d.is_local() {
            let sp = tcx.def_span(d);
            let sm = tcx.sess.source_map();
            let loc = sm.lookup_char_pos(sp.lo());
            o.push(("file", s(format!("{}", loc.file.name.prefer_local_unconditionally()))));
            o.push(("line", J::Int(loc.line as i128)));
            o.push(("from_expansion", J::Bool(sp.from_expansion())));
        }
        J::Obj(o)
    }

    // ------------------------------------------------------------ MIR
    fn place_j(&self, body: &Body<'tcx>, p: &Place<'tcx>) -> J {
        let tcx = self.tcx;
        let mut projs = Vec::new();
        let mut pty = mir::PlaceTy::from_ty(body.local_decls[p.local].ty);
        for elem in p.projection.iter() {
            let j = match elem {
                ProjectionElem::Deref => s("*"),
                ProjectionElem::Field(f, _) => {
                    let mut name = None;
                    if let ty::Adt(adt, _) = pty.ty.kind() {
                        if adt.is_struct() || adt.is_enum() || adt.is_union() {
                            let vi = pty.variant_index.unwrap_or(rustc_abi::FIRST_VARIANT);
                            if vi.as_usize() < adt.variants().len() {
                                let v = adt.variant(vi);
                                if f.as_usize() < v.fields.len() {
                                    name = Some(v.fields[f].name.to_string());
                                }
                            }
                        }
                    }
                    J::Obj(vec![
                        ("f", J::Int(f.as_usize() as i128)),
                        ("n", name.map(s).unwrap_or(J::Null)),
                    ])
                }
                ProjectionElem::Index(l) => J::Obj(vec![("i", J::Int(l.as_usize() as i128))]),
                ProjectionElem::ConstantIndex { offset, min_length, from_end } => J::Obj(vec![
                    ("ci", J::UInt(offset as u128)),
                    ("min", J::UInt(min_length as u128)),
                    ("end", J::Bool(from_end)),
                ]),
                ProjectionElem::Subslice { from, to, from_end } => J::Obj(vec![
                    ("ss", J::UInt(from as u128)),
                    ("to", J::UInt(to as u128)),
                    ("end", J::Bool(from_end)),
                ]),
                ProjectionElem::Downcast(name, v) => J::Obj(vec![
                    ("dc", name.map(|x| s(x.to_string())).unwrap_or(J::Null)),
                    ("v", J::Int(v.as_usize() as i128)),
                ]),
                ProjectionElem::OpaqueCast(t) => J::Obj(vec![("oc", s(ty_s(t)))]),
                ProjectionElem::UnwrapUnsafeBinder(t) => J::Obj(vec![("ub", s(ty_s(t)))]),
            };
            projs.push(j);
            pty = pty.projection_ty(tcx, elem);
        }
        J::Arr(vec![J::Int(p.local.as_usize() as i128), J::Arr(projs)])
    }

    fn const_j(&mut self, body: &Body<'tcx>, c: &mir::ConstOperand<'tcx>) -> J {
        let tcx = self.tcx;
        let ty = c.const_.ty();
        let mut o: Vec<(&'static str, J)> = vec![("ty", s(ty_s(ty)))];
        let _ = body;
        match ty.kind() {
            ty::FnDef(d, args) => {
                let di = self.def(*d);
                o.push(("fn", J::Int(di as i128)));
                o.push(("args", self.args_j(args)));
                return J::Obj(o);
            }
            _ => {}
        }
        match c.const_ {
            MirConst::Val(v, _) => match v {
                ConstValue::Scalar(mir::interpret::Scalar::Int(i)) => {
                    let bits = i.to_bits_unchecked();
                    o.push(("v", J::UInt(bits)));
                    o.push(("size", J::Int(i.size().bytes() as i128)));
                    if ty.is_signed() {
                        let sz = i.size().bits();
                        let sv = if sz == 0 {
                            0
                        } else {
                            let shift = 128 - sz;
                            ((bits << shift) as i128) >> shift
                        };
                        o.push(("sv", J::Int(sv)));
                    }
                }
                ConstValue::Scalar(_) => {
                    o.push(("ptr", J::Bool(true)));
                }
                ConstValue::ZeroSized => {
                    o.push(("zst", J::Bool(true)));
                }
                ConstValue::Slice { .. } => {
                    if let Some(bytes) = v.try_get_slice_bytes_for_diagnostics(tcx) {
                        o.push(("str", s(String::from_utf8_lossy(bytes).to_string())));
                    } else {
                        o.push(("slice", J::Bool(true)));
                    }
                }
                ConstValue::Indirect { .. } => {
                    o.push(("indirect", J::Bool(true)));
                }
            },
            MirConst::Unevaluated(uv, _) => {
                let di = self.def(uv.def);
                o.push(("uneval", J::Int(di as i128)));
                o.push(("args", self.args_j(uv.args)));
                // monomorphic scalar constants (digit::u64::BIT_SHIFT, ...) are evaluated by rustc's CTFE
                if uv.promoted.is_none() && uv.args.is_empty() && (ty.is_integral() || ty.is_bool()) {
                    let env = TypingEnv::fully_monomorphized();
                    if let Some(i) = c.const_.try_eval_scalar_int(tcx, env) {
                        o.push(("cv", J::UInt(i.to_bits_unchecked())));
                    }
                }
                if let Some(p) = uv.promoted {
                    o.push(("promoted", J::Int(p.as_usize() as i128)));
                }
            }
            MirConst::Ty(_, ct) => {
                o.push(("tyconst", s(with_no_trimmed_paths!(ct.to_string()))));
                if let ty::ConstKind::Param(p) = ct.kind() {
                    o.push(("param", s(p.name.to_string())));
                }
                if let ty::ConstKind::Value(v) = ct.kind() {
                    if let Some(i) = v.try_to_leaf() {
                        o.push(("v", J::UInt(i.to_bits_unchecked())));
                    }
                }
            }
        }
        J::Obj(o)
    }

    fn operand_j(&mut self, body: &Body<'tcx>, op: &Operand<'tcx>) -> J {
        match op {
            Operand::Copy(p) => J::Arr(vec![s("c"), self.place_j(body, p)]),
            Operand::Move(p) => J::Arr(vec![s("m"), self.place_j(body, p)]),
            Operand::Constant(c) => J::Arr(vec![s("k"), self.const_j(body, c)]),
            Operand::RuntimeChecks(rc) => J::Arr(vec![s("rc"), s(format!("{:?}", rc))]),
        }
    }

    fn rvalue_j(&mut self, body: &Body<'tcx>, rv: &Rvalue<'tcx>) -> J {
        match rv {
            Rvalue::Use(op, _) => J::Obj(vec![("r", s("use")), ("a", self.operand_j(body, op))]),
            Rvalue::Repeat(op, ct) => J::Obj(vec![
                ("r", s("repeat")),
                ("a", self.operand_j(body, op)),
                ("n", s(with_no_trimmed_paths!(ct.to_string()))),
            ]),
            Rvalue::Ref(_, bk, p) => J::Obj(vec![
                ("r", s("ref")),
                ("mut", J::Bool(matches!(bk, mir::BorrowKind::Mut { .. }))),
                ("p", self.place_j(body, p)),
            ]),
            Rvalue::ThreadLocalRef(_) => J::Obj(vec![("r", s("tls"))]),
            Rvalue::RawPtr(k, p) => J::Obj(vec![
                ("r", s("rawptr")),
                ("mut", J::Bool(matches!(k, mir::RawPtrKind::Mut))),
                ("p", self.place_j(body, p)),
            ]),
            Rvalue::Cast(k, op, t) => J::Obj(vec![
                ("r", s("cast")),
                ("k", s(format!("{:?}", k))),
                ("a", self.operand_j(body, op)),
                ("from", s(ty_s(op.ty(body, self.tcx)))),
                ("ty", s(ty_s(*t))),
            ]),
            Rvalue::BinaryOp(op, ab) => J::Obj(vec![
                ("r", s("bin")),
                ("op", s(format!("{:?}", op))),
                ("a", self.operand_j(body, &ab.0)),
                ("b", self.operand_j(body, &ab.1)),
            ]),
            Rvalue::UnaryOp(op, a) => J::Obj(vec![
                ("r", s("un")),
                ("op", s(format!("{:?}", op))),
                ("a", self.operand_j(body, a)),
            ]),
            Rvalue::Discriminant(p) => J::Obj(vec![("r", s("discr")), ("p", self.place_j(body, p))]),
            Rvalue::Aggregate(k, ops) => {
                let mut o: Vec<(&'static str, J)> = vec![("r", s("agg"))];
                match &**k {
                    AggregateKind::Array(t) => {
                        o.push(("k", s("array")));
                        o.push(("ty", s(ty_s(*t))));
                    }
                    AggregateKind::Tuple => o.push(("k", s("tuple"))),
                    AggregateKind::Adt(d, v, args, _, _) => {
                        o.push(("k", s("adt")));
                        let adt = self.tcx.adt_def(*d);
                        o.push(("adt", s(self.tcx.item_name(*d).to_string())));
                        o.push(("adt_path", s(self.path(*d))));
                        o.push(("variant", s(adt.variant(*v).name.to_string())));
                        o.push(("vi", J::Int(v.as_usize() as i128)));
                        o.push(("args", self.args_j(args)));
                        o.push((
                            "fields",
                            J::Arr(adt.variant(*v).fields.iter().map(|f| s(f.name.to_string())).collect()),
                        ));
                    }
                    AggregateKind::Closure(d, args) => {
                        o.push(("k", s("closure")));
                        let di = self.def(*d);
                        o.push(("def", J::Int(di as i128)));
                        let _ = args;
                    }
                    AggregateKind::Coroutine(..) | AggregateKind::CoroutineClosure(..) => {
                        o.push(("k", s("coroutine")))
                    }
                    AggregateKind::RawPtr(t, _) => {
                        o.push(("k", s("rawptr")));
                        o.push(("ty", s(ty_s(*t))));
                    }
                }
                o.push(("ops", J::Arr(ops.iter().map(|x| self.operand_j(body, x)).collect())));
                J::Obj(o)
            }
            Rvalue::CopyForDeref(p) => J::Obj(vec![
                ("r", s("use")),
                ("a", J::Arr(vec![s("c"), self.place_j(body, p)])),
            ]),
            Rvalue::WrapUnsafeBinder(op, _) => J::Obj(vec![("r", s("use")), ("a", self.operand_j(body, op))]),
        }
    }

    fn span_line(&self, sp: rustc_span::Span) -> J {
        // line of the outermost (call-site) expansion in the crate's own files is less
        // useful than the innermost source location; report the innermost.
        let sm = self.tcx.sess.source_map();
        let mut sp = sp;
        for _ in 0..16 {
            let loc = sm.lookup_char_pos(sp.lo());
            let name = format!("{}", loc.file.name.prefer_local_unconditionally());
            if !(name.contains("/rustlib/") || name.starts_with('<')) || !sp.from_expansion() {
                return s(format!("{}:{}", name, loc.line));
            }
            sp = sp.ctxt().outer_expn_data().call_site;
        }
        let loc = sm.lookup_char_pos(sp.lo());
        s(format!("{}:{}", loc.file.name.prefer_local_unconditionally(), loc.line))
    }

    fn block_j(&mut self, body: &Body<'tcx>, bb: &BasicBlockData<'tcx>) -> J {
        let mut stmts = Vec::new();
        for st in &bb.statements {
            match &st.kind {
                StatementKind::Assign(b) => {
                    let (p, rv) = &**b;
                    stmts.push(J::Obj(vec![
                        ("s", s("assign")),
                        ("p", self.place_j(body, p)),
                        ("rv", self.rvalue_j(body, rv)),
                    ]));
                }
                StatementKind::SetDiscriminant { place, variant_index } => {
                    stmts.push(J::Obj(vec![
                        ("s", s("setdiscr")),
                        ("p", self.place_j(body, place)),
                        ("v", J::Int(variant_index.as_usize() as i128)),
                    ]));
                }
                StatementKind::Intrinsic(i) => {
                    stmts.push(J::Obj(vec![("s", s("intrinsic")), ("d", s(format!("{:?}", i)))]));
                }
                _ => {}
            }
        }
        let term = bb.terminator();
        let mut t: Vec<(&'static str, J)> = Vec::new();
        let bbj = |b: mir::BasicBlock| J::Int(b.as_usize() as i128);
        match &term.kind {
            TerminatorKind::Goto { target } => {
                t.push(("t", s("goto")));
                t.push(("to", bbj(*target)));
            }
            TerminatorKind::SwitchInt { discr, targets } => {
                t.push(("t", s("switch")));
                t.push(("d", self.operand_j(body, discr)));
                t.push(("dty", s(ty_s(discr.ty(body, self.tcx)))));
                let mut vals = Vec::new();
                for (v, b) in targets.iter() {
                    vals.push(J::Arr(vec![J::UInt(v), bbj(b)]));
                }
                t.push(("vals", J::Arr(vals)));
                t.push(("otherwise", bbj(targets.otherwise())));
            }
            TerminatorKind::UnwindResume => t.push(("t", s("resume"))),
            TerminatorKind::UnwindTerminate(_) => t.push(("t", s("abort"))),
            TerminatorKind::Return => t.push(("t", s("return"))),
            TerminatorKind::Unreachable => t.push(("t", s("unreachable"))),
            TerminatorKind::Drop { place, target, .. } => {
                t.push(("t", s("drop")));
                t.push(("p", self.place_j(body, place)));
                t.push(("to", bbj(*target)));
            }
            TerminatorKind::Call { func, args, destination, target, .. } => {
                t.push(("t", s("call")));
                t.push(("f", self.operand_j(body, func)));
                t.push(("args", J::Arr(args.iter().map(|a| self.operand_j(body, &a.node)).collect())));
                t.push(("dest", self.place_j(body, destination)));
                t.push(("to", target.map(bbj).unwrap_or(J::Null)));
                t.push(("macro", J::Bool(term.source_info.span.from_expansion())));
            }
            TerminatorKind::TailCall { func, args, .. } => {
                t.push(("t", s("tailcall")));
                t.push(("f", self.operand_j(body, func)));
                t.push(("args", J::Arr(args.iter().map(|a| self.operand_j(body, &a.node)).collect())));
            }
            TerminatorKind::Assert { cond, expected, msg, target, .. } => {
                t.push(("t", s("assert")));
                t.push(("c", self.operand_j(body, cond)));
                t.push(("exp", J::Bool(*expected)));
                let kind = match &**msg {
                    mir::AssertKind::BoundsCheck { .. } => "BoundsCheck".to_string(),
                    mir::AssertKind::Overflow(op, ..) => format!("Overflow({:?})", op),
                    mir::AssertKind::OverflowNeg(_) => "OverflowNeg".to_string(),
                    mir::AssertKind::DivisionByZero(_) => "DivisionByZero".to_string(),
                    mir::AssertKind::RemainderByZero(_) => "RemainderByZero".to_string(),
                    other => {
                        let d = format!("{:?}", other);
                        d.split(|c: char| !c.is_alphanumeric()).next().unwrap_or("Other").to_string()
                    }
                };
                t.push(("kind", s(kind)));
                t.push(("to", bbj(*target)));
            }
            TerminatorKind::FalseEdge { real_target, .. } => {
                t.push(("t", s("goto")));
                t.push(("to", bbj(*real_target)));
            }
            TerminatorKind::FalseUnwind { real_target, .. } => {
                t.push(("t", s("goto")));
                t.push(("to", bbj(*real_target)));
            }
            TerminatorKind::Yield { .. } | TerminatorKind::CoroutineDrop => t.push(("t", s("yield"))),
            TerminatorKind::InlineAsm { .. } => t.push(("t", s("asm"))),
        }
        t.push(("loc", self.span_line(term.source_info.span)));
        J::Obj(vec![("st", J::Arr(stmts)), ("term", J::Obj(t))])
    }

    fn body_j(&mut self, d: DefId, body: &Body<'tcx>, with_promoted: bool) -> J {
        let di = self.def(d);
        let locals: Vec<J> = body.local_decls.iter().map(|l| s(ty_s(l.ty))).collect();
        let mut names: Vec<J> = Vec::new();
        for vdi in &body.var_debug_info {
            if let mir::VarDebugInfoContents::Place(p) = &vdi.value {
                if p.projection.is_empty() {
                    names.push(J::Arr(vec![J::Int(p.local.as_usize() as i128), s(vdi.name.to_string())]));
                }
            }
        }
        let mut blocks = Vec::new();
        for bb in body.basic_blocks.iter() {
            if bb.is_cleanup {
                blocks.push(J::Obj(vec![("cleanup", J::Bool(true))]));
            } else {
                blocks.push(self.block_j(body, bb));
            }
        }
        let mut promoted = Vec::new();
        if with_promoted && matches!(self.tcx.def_kind(d), DefKind::Fn | DefKind::AssocFn | DefKind::Closure) {
            for pb in self.tcx.promoted_mir(d).iter() {
                promoted.push(self.body_j(d, pb, false));
            }
        }
        J::Obj(vec![
            ("def", J::Int(di as i128)),
            ("promoted", J::Arr(promoted)),
            ("argc", J::Int(body.arg_count as i128)),
            ("locals", J::Arr(locals)),
            ("names", J::Arr(names)),
            ("blocks", J::Arr(blocks)),
        ])
    }

    // ------------------------------------------------------------ instances
    fn inst(&mut self, def: DefId, args: GenericArgsRef<'tcx>, kind: &'static str, env: TypingEnv<'tcx>, has_body: bool) -> usize {
        let tag = match kind {
            "item" => 0u8,
            "unresolved" => 1,
            "intrinsic" => 2,
            "virtual" => 3,
            _ => 4,
        };
        if let Some(&i) = self.inst_ix.get(&(def, args, tag)) {
            return i;
        }
        self.def(def);
        let i = self.insts.len();
        self.insts.push(InstRec { def, args, kind, env, calls: Vec::new(), fnrefs: Vec::new(), has_body });
        self.inst_ix.insert((def, args, tag), i);
        if has_body {
            self.work.push(i);
        }
        i
    }

    fn has_mir(&self, d: DefId) -> bool {
        let tcx = self.tcx;
        if !matches!(tcx.def_kind(d), DefKind::Fn | DefKind::AssocFn | DefKind::Closure) {
            return false;
        }
        if d.is_local() {
            return tcx.is_mir_available(d);
        }
        // foreign: only provided trait methods (PartialOrd::lt, Ord::max, Zero::set_zero, ...),
        // which call back into the local impls
        matches!(tcx.def_kind(d), DefKind::AssocFn)
            && matches!(tcx.def_kind(tcx.parent(d)), DefKind::Trait)
            && tcx.is_mir_available(d)
    }

    // resolve a FnDef reference (already instantiated for the current instance)
    fn resolve_target(&mut self, env: TypingEnv<'tcx>, d: DefId, args: GenericArgsRef<'tcx>) -> J {
        let tcx = self.tcx;
        match Instance::try_resolve(tcx, env, d, args) {
            Ok(Some(inst)) => {
                let (def, kind): (DefId, &'static str) = match inst.def {
                    InstanceKind::Item(did) => (did, "item"),
                    InstanceKind::Intrinsic(did) => (did, "intrinsic"),
                    InstanceKind::Virtual(did, _) => (did, "virtual"),
                    InstanceKind::ClosureOnceShim { call_once: _, .. } => {
                        // the shim calls the closure body: point at the closure itself
                        if let ty::Closure(cd, cargs) = inst.args.type_at(0).kind() {
                            let hb = self.has_mir(*cd);
                            let i = self.inst(*cd, cargs, "item", env, hb);
                            return J::Int(i as i128);
                        }
                        (inst.def_id(), "shim")
                    }
                    InstanceKind::FnPtrShim(did, _) => (did, "shim"),
                    InstanceKind::ReifyShim(did, _) => (did, "item"),
                    InstanceKind::CloneShim(did, _) => (did, "shim"),
                    InstanceKind::DropGlue(did, _) => (did, "shim"),
                    other => (other.def_id(), "shim"),
                };
                let hb = kind == "item" && self.has_mir(def);
                let i = self.inst(def, inst.args, kind, env, hb);
                J::Int(i as i128)
            }
            Ok(None) => {
                let i = self.inst(d, args, "unresolved", env, false);
                J::Int(i as i128)
            }
            Err(_) => J::Null,
        }
    }

    fn walk_instance(&mut self, ix: usize) {
        let tcx = self.tcx;
        let (def, args, env) = {
            let r = &self.insts[ix];
            (r.def, r.args, r.env)
        };
        let body = tcx.optimized_mir(def);
        let inst = Instance::new_raw(def, args);
        let mut calls = Vec::new();
        let mut fnrefs = Vec::new();
        let subst = |cx: &Cx<'tcx>, t: Ty<'tcx>| -> Option<Ty<'tcx>> {
            inst.try_instantiate_mir_and_normalize_erasing_regions(cx.tcx, env, EarlyBinder::bind(t)).ok()
        };
        for (bbi, bb) in body.basic_blocks.iter_enumerated() {
            if bb.is_cleanup {
                continue;
            }
            // fn items and closures used as values
            let mut value_ops: Vec<&Operand<'tcx>> = Vec::new();
            for st in &bb.statements {
                if let StatementKind::Assign(b) = &st.kind {
                    match &b.1 {
                        Rvalue::Use(op, _) | Rvalue::Cast(_, op, _) | Rvalue::Repeat(op, _) | Rvalue::UnaryOp(_, op) => {
                            value_ops.push(op)
                        }
                        Rvalue::Aggregate(k, ops) => {
                            if let AggregateKind::Closure(cd, cargs) = &**k {
                                if let Some(cty) = subst(self, Ty::new_closure(tcx, *cd, cargs)) {
                                    if let ty::Closure(cd2, cargs2) = cty.kind() {
                                        let hb = self.has_mir(*cd2);
                                        let i = self.inst(*cd2, cargs2, "item", env, hb);
                                        fnrefs.push((bbi.as_usize(), J::Int(i as i128)));
                                    }
                                }
                            }
                            for op in ops.iter() {
                                value_ops.push(op);
                            }
                        }
                        _ => {}
                    }
                }
            }
            let term = bb.terminator();
            if let TerminatorKind::Call { func, args: cargs, .. } = &term.kind {
                for a in cargs.iter() {
                    value_ops.push(&a.node);
                }
                let fty = func.ty(body, tcx);
                match subst(self, fty) {
                    Some(fty) => match fty.kind() {
                        ty::FnDef(cd, cargs) => {
                            let tgt = self.resolve_target(env, *cd, cargs);
                            calls.push((bbi.as_usize(), tgt));
                        }
                        _ => calls.push((bbi.as_usize(), s(format!("indirect:{}", ty_s(fty))))),
                    },
                    None => calls.push((bbi.as_usize(), J::Null)),
                }
            }
            for op in value_ops {
                if let Operand::Constant(c) = op {
                    let t = c.const_.ty();
                    if let ty::FnDef(..) = t.kind() {
                        if let Some(t2) = subst(self, t) {
                            if let ty::FnDef(cd, cargs) = t2.kind() {
                                let tgt = self.resolve_target(env, *cd, cargs);
                                fnrefs.push((bbi.as_usize(), tgt));
                            }
                        }
                    }
                }
            }
        }
        self.insts[ix].calls = calls;
        self.insts[ix].fnrefs = fnrefs;
    }
}

// ---------------------------------------------------------------- driver
struct Facts;

impl Callbacks for Facts {
    fn after_analysis<'tcx>(&mut self, _c: &Compiler, tcx: TyCtxt<'tcx>) -> Compilation {
        let want = std::env::var("BNUM_FACTS_CRATE").unwrap_or_else(|_| "bnum".to_string());
        if tcx.crate_name(LOCAL_CRATE).as_str() != want {
            return Compilation::Continue;
        }
        let out_path = match std::env::var("BNUM_FACTS_OUT") {
            Ok(p) => p,
            Err(_) => return Compilation::Continue,
        };
        let mut cx = Cx {
            tcx,
            def_ix: HashMap::new(),
            defs: Vec::new(),
            inst_ix: HashMap::new(),
            insts: Vec::new(),
            work: Vec::new(),
        };
        // bodies
        let mut bodies = Vec::new();
        let mut roots: Vec<DefId> = Vec::new();
        for ld in tcx.hir_body_owners() {
            let d = ld.to_def_id();
            match tcx.def_kind(d) {
                DefKind::Fn | DefKind::AssocFn | DefKind::Closure => {
                    let body = tcx.optimized_mir(d);
                    bodies.push(cx.body_j(d, body, true));
                    if !matches!(tcx.def_kind(d), DefKind::Closure) {
                        roots.push(d);
                    }
                }
                DefKind::Const { .. } | DefKind::AssocConst { .. } => {
                    let body = tcx.mir_for_ctfe(d);
                    bodies.push(cx.body_j(d, body, true));
                }
                _ => {}
            }
        }
        // instance graph from every fn root with identity args
        let mut root_ix = Vec::new();
        for d in roots {
            let args = ty::GenericArgs::identity_for_item(tcx, d);
            let env = TypingEnv::post_analysis(tcx, d);
            // erase regions in identity args so keys are canonical
            let args = tcx.erase_and_anonymize_regions(args);
            let i = cx.inst(d, args, "item", env, true);
            let di = cx.def(d);
            root_ix.push(J::Arr(vec![J::Int(di as i128), J::Int(i as i128)]));
            while let Some(w) = cx.work.pop() {
                cx.walk_instance(w);
            }
        }
        // ADTs and impls
        let mut adts = Vec::new();
        let mut impls = Vec::new();
        for id in tcx.hir_crate_items(()).definitions() {
            let d = id.to_def_id();
            match tcx.def_kind(d) {
                DefKind::Struct | DefKind::Enum => {
                    let adt = tcx.adt_def(d);
                    let mut variants = Vec::new();
                    for v in adt.variants() {
                        let fields: Vec<J> = v
                            .fields
                            .iter()
                            .map(|f| {
                                J::Obj(vec![
                                    ("name", s(f.name.to_string())),
                                    ("ty", s(ty_s(tcx.type_of(f.did).instantiate_identity().skip_norm_wip()))),
                                    ("public", J::Bool(f.vis.is_public())),
                                ])
                            })
                            .collect();
                        variants.push(J::Obj(vec![("name", s(v.name.to_string())), ("fields", J::Arr(fields))]));
                    }
                    adts.push(J::Obj(vec![
                        ("name", s(tcx.item_name(d).to_string())),
                        ("path", s(cx.path(d))),
                        ("transparent", J::Bool(adt.repr().transparent())),
                        ("repr_c", J::Bool(adt.repr().c())),
                        ("is_struct", J::Bool(adt.is_struct())),
                        ("variants", J::Arr(variants)),
                    ]));
                }
                DefKind::Impl { of_trait } => {
                    let self_ty = tcx.type_of(d).instantiate_identity().skip_norm_wip();
                    let (head, refs) = cx.head_of_ty(self_ty);
                    let mut o: Vec<(&'static str, J)> = vec![
                        ("self_ty", s(ty_s(self_ty))),
                        ("self_head", s(head)),
                        ("self_refs", J::Int(refs as i128)),
                        ("derived", J::Bool(tcx.is_automatically_derived(d))),
                    ];
                    if of_trait {
                        let tr = tcx.impl_trait_ref(d).instantiate_identity().skip_norm_wip();
                        o.push(("trait", s(cx.path(tr.def_id))));
                        o.push((
                            "trait_args",
                            J::Arr(
                                tr.args
                                    .iter()
                                    .skip(1)
                                    .filter(|a| a.as_region().is_none())
                                    .map(|a| s(with_no_trimmed_paths!(a.to_string())))
                                    .collect(),
                            ),
                        ));
                    } else {
                        o.push(("trait", J::Null));
                    }
                    let items: Vec<J> = tcx
                        .associated_items(d)
                        .in_definition_order()
                        .map(|it| s(it.name().to_string()))
                        .collect();
                    o.push(("items", J::Arr(items)));
                    impls.push(J::Obj(o));
                }
                _ => {}
            }
        }
        // instances
        let mut insts_j = Vec::new();
        let recs = std::mem::take(&mut cx.insts);
        for r in recs {
            let di = cx.def(r.def);
            let mut calls = Vec::new();
            for (bb, t) in r.calls {
                calls.push(J::Arr(vec![J::Int(bb as i128), t]));
            }
            insts_j.push(J::Obj(vec![
                ("d", J::Int(di as i128)),
                ("a", cx.args_j(r.args)),
                ("k", s(r.kind)),
                ("body", J::Bool(r.has_body)),
                ("c", J::Arr(calls)),
                ("r", J::Arr(r.fnrefs.into_iter().map(|(bb, t)| J::Arr(vec![J::Int(bb as i128), t])).collect())),
            ]));
        }
        // defs last: all referenced defs are now registered
        let mut defs_j = Vec::new();
        let mut i = 0;
        while i < cx.defs.len() {
            let d = cx.defs[i];
            defs_j.push(cx.def_json(d));
            i += 1;
        }
        let top = J::Obj(vec![
            ("crate", s(want)),
            ("config", s(std::env::var("BNUM_FACTS_CONFIG").unwrap_or_default())),
            ("debug_assertions", J::Bool(tcx.sess.opts.debug_assertions)),
            ("defs", J::Arr(defs_j)),
            ("bodies", J::Arr(bodies)),
            ("roots", J::Arr(root_ix)),
            ("instances", J::Arr(insts_j)),
            ("adts", J::Arr(adts)),
            ("impls", J::Arr(impls)),
        ]);
        let mut out = String::with_capacity(64 << 20);
        top.write(&mut out);
        let tmp = format!("{}.tmp", out_path);
        std::fs::write(&tmp, out).expect("write facts");
        std::fs::rename(&tmp, &out_path).expect("rename facts");
        Compilation::Continue
    }
}

fn main() {
    let mut args: Vec<String> = std::env::args().collect();
    // cargo calls `<wrapper> <rustc> <args...>`
    if args.len() > 1 {
        args.remove(1);
    }
    let mut cb = Facts;
    rustc_driver::run_compiler(&args, &mut cb);
}
